/-
Lemmas about the layout-decision model (Model/Layout.lean), core Lean only.
-/
import KotoVerif.Model.Layout

namespace KotoVerif.C11.LayoutLemmas
open KotoVerif.Layout

mutual
/-- measured length vs emitted width, per item -/
theorem measure_item : ∀ (i : Item), flatOneLine i = true →
    lineLength i + returnSpaces i = flatWidth i + optWidth i
  | .char w, _ => by simp [lineLength, returnSpaces, flatWidth, optWidth]
  | .optChar w, _ => by simp [lineLength, returnSpaces, flatWidth, optWidth]
  | .str w l, _ => by simp [lineLength, returnSpaces, flatWidth, optWidth]
  | .lineBreak, h => by simp [flatOneLine] at h
  | .error, h => by simp [flatOneLine] at h
  | .brk b, h => by
      cases b <;> simp [flatOneLine, Brk.forces] at h <;>
        simp [lineLength, returnSpaces, flatWidth, optWidth, Brk.len, Brk.flatWidth]
  | .group is, h => by
      have := measure_items is (by simpa [flatOneLine] using h)
      simpa [lineLength, returnSpaces, flatWidth, optWidth] using this
/-- measured length vs emitted width, per item list -/
theorem measure_items : ∀ (is : Items), flatOneLineItems is = true →
    lineLengthItems is + returnSpacesItems is = flatWidthItems is + optWidthItems is
  | .nil, _ => by simp [lineLengthItems, returnSpacesItems, flatWidthItems, optWidthItems]
  | .cons i rest, h => by
      simp only [flatOneLineItems, Bool.and_eq_true] at h
      have hi := measure_item i h.1
      have hr := measure_items rest h.2
      cases i with
      | char w => simp [lineLengthItems, returnSpacesItems, flatWidthItems, optWidthItems, lineLength, returnSpaces, flatWidth, optWidth] at hi ⊢; omega
      | optChar w => simp [lineLengthItems, returnSpacesItems, flatWidthItems, optWidthItems, lineLength, returnSpaces, flatWidth, optWidth] at hi ⊢; omega
      | str w l => simp [lineLengthItems, returnSpacesItems, flatWidthItems, optWidthItems, lineLength, returnSpaces, flatWidth, optWidth] at hi ⊢; omega
      | lineBreak => simp [flatOneLine] at h
      | error => simp [flatOneLine] at h
      | brk b =>
        have hb : b.forces = false := by simpa [flatOneLine] using h.1
        simp only [lineLengthItems, hb, returnSpacesItems, flatWidthItems, optWidthItems]
        simp only [lineLength] at hi
        simp only [Bool.false_eq_true, if_false]
        omega
      | group js =>
        simp only [lineLengthItems, returnSpacesItems, flatWidthItems, optWidthItems]
        simp only [lineLength] at hi
        omega
end

theorem anyForce_false : ∀ (is : Items), flatOneLineItems is = true → anyItem forceBreak is = false
  | .nil, _ => rfl
  | .cons i rest, h => by
      simp only [flatOneLineItems, Bool.and_eq_true] at h
      have hr := anyForce_false rest h.2
      have hi : forceBreak i = false := by
        cases i with
        | lineBreak => simp [flatOneLine] at h
        | brk b => simpa [flatOneLine, forceBreak] using h.1
        | _ => rfl
      simp [anyItem, hi, hr]

theorem notBlock_of_flat (i : Item) (h : flatOneLine i = true) : isIndentedBlock i = false := by
  cases i with
  | group js =>
    cases js with
    | nil => rfl
    | cons j rest =>
      cases j with
      | brk b =>
        cases b <;> first | rfl | (simp [flatOneLine, flatOneLineItems, Brk.forces] at h)
      | _ => rfl
  | _ => rfl

theorem lastBlock_false : ∀ (is : Items), flatOneLineItems is = true → lastIs isIndentedBlock is = false
  | .nil, _ => rfl
  | .cons i .nil, h => by
      simp only [flatOneLineItems, Bool.and_eq_true] at h
      simpa [lastIs] using notBlock_of_flat i h.1
  | .cons i (.cons j rest), h => by
      simp only [flatOneLineItems, Bool.and_eq_true] at h
      have := lastBlock_false (.cons j rest) (by simp [flatOneLineItems, h.2.1, h.2.2])
      simpa [lastIs] using this

/-- Under `flatOneLine` the decision is the width test alone. -/
theorem broken_eq_tooLong (lineLen col : Nat) (is : Items) (h : flatOneLineItems is = true) :
    broken lineLen col is = tooLong lineLen col is := by
  simp [broken, anyForce_false is h, lastBlock_false is h]

mutual
theorem nested_item (lineLen col : Nat) : ∀ (i : Item), flatOneLine i = true →
    lineLength i ≤ lineLen - col → nestedFlat lineLen col i = true
  | .group js, h, hle => by
      have hjs : flatOneLineItems js = true := by simpa [flatOneLine] using h
      have hle' : lineLengthItems js ≤ lineLen - col := by simpa [lineLength] using hle
      have hb : broken lineLen col js = false := by
        rw [broken_eq_tooLong lineLen col js hjs]
        simp [tooLong]
        omega
      simp [nestedFlat, hb, nested_items lineLen col js hjs hle']
  | .char _, _, _ => rfl
  | .optChar _, _, _ => rfl
  | .str _ _, _, _ => rfl
  | .lineBreak, _, _ => rfl
  | .brk _, _, _ => rfl
  | .error, _, _ => rfl
theorem nested_items (lineLen col : Nat) : ∀ (is : Items), flatOneLineItems is = true →
    lineLengthItems is ≤ lineLen - col → nestedFlatItems lineLen col is = true
  | .nil, _, _ => rfl
  | .cons i rest, h, hle => by
      simp only [flatOneLineItems, Bool.and_eq_true] at h
      have hsplit : lineLength i + lineLengthItems rest ≤ lineLen - col ∨ True := Or.inr trivial
      have hi : lineLength i ≤ lineLen - col ∧ lineLengthItems rest ≤ lineLen - col := by
        cases i with
        | brk b =>
          have hb : b.forces = false := by simpa [flatOneLine] using h.1
          simp only [lineLengthItems, hb, Bool.false_eq_true, if_false] at hle
          simp only [lineLength]
          omega
        | lineBreak => simp [flatOneLine] at h
        | error => simp [flatOneLine] at h
        | char w => simp only [lineLengthItems] at hle; simp only [lineLength]; omega
        | optChar w => simp only [lineLengthItems] at hle; simp only [lineLength]; omega
        | str w l => simp only [lineLengthItems] at hle; simp only [lineLength]; omega
        | group js => simp only [lineLengthItems] at hle; simp only [lineLength]; omega
      simp [nestedFlatItems, nested_item lineLen col i h.1 hi.1, nested_items lineLen col rest h.2 hi.2]
end

/-! ## the render functions on the single-line path -/

theorem append_single (a w : Nat) : Out.append [a] [w] = [a + w] := by
  simp [Out.append, Out.emit]

mutual
theorem render_item_flat (o : Opt) (col : Nat) : ∀ (i : Item), flatOneLine i = true →
    lineLength i ≤ o.lineLen - col → renderItem o i false false col = some [flatWidth i]
  | .char w, _, _ => by simp [renderItem, flatWidth]
  | .optChar w, _, _ => by simp [renderItem, flatWidth]
  | .str w more, h, _ => by
      have : more = [] := by simpa [flatOneLine] using h
      subst this
      simp [renderItem, flatWidth]
  | .lineBreak, h, _ => by simp [flatOneLine] at h
  | .error, h, _ => by simp [flatOneLine] at h
  | .brk b, _, _ => by simp [renderItem, flatWidth]
  | .group is, h, hle => by
      have hjs : flatOneLineItems is = true := by simpa [flatOneLine] using h
      have hle' : lineLengthItems is ≤ o.lineLen - col := by simpa [lineLength] using hle
      have h1 : tooLong o.lineLen col is = false := by simp [tooLong]; omega
      have h2 := anyForce_false is hjs
      have h3 := lastBlock_false is hjs
      have := flat_items o col is hjs hle' 0
      simp only [renderItem, h1, h2, h3, Bool.or_self, Bool.false_eq_true, if_false, flatWidth]
      simpa using this
theorem flat_items (o : Opt) (col : Nat) : ∀ (is : Items), flatOneLineItems is = true →
    lineLengthItems is ≤ o.lineLen - col →
    ∀ a, flatItems o is col [a] = some [a + flatWidthItems is]
  | .nil, _, _, a => by simp [flatItems, flatWidthItems]
  | .cons i rest, h, hle, a => by
      simp only [flatOneLineItems, Bool.and_eq_true] at h
      have hi : lineLength i ≤ o.lineLen - col ∧ lineLengthItems rest ≤ o.lineLen - col := by
        cases i with
        | brk b =>
          have hb : b.forces = false := by simpa [flatOneLine] using h.1
          simp only [lineLengthItems, hb, Bool.false_eq_true, if_false] at hle
          simp only [lineLength]
          omega
        | lineBreak => simp [flatOneLine] at h
        | error => simp [flatOneLine] at h
        | char w => simp only [lineLengthItems] at hle; simp only [lineLength]; omega
        | optChar w => simp only [lineLengthItems] at hle; simp only [lineLength]; omega
        | str w l => simp only [lineLengthItems] at hle; simp only [lineLength]; omega
        | group js => simp only [lineLengthItems] at hle; simp only [lineLength]; omega
      have hr := render_item_flat o col i h.1 hi.1
      have hrest := flat_items o col rest h.2 hi.2 (a + flatWidth i)
      simp only [flatItems, hr, append_single, hrest, flatWidthItems]
      congr 2
      omega
end

/-! ## rendered text is a fixed point of the render functions -/

/-- the further lines of a text as items: a line break and the line, verbatim -/
def tailItems : List Nat → Items
  | [] => .nil
  | l :: ls => .cons .lineBreak (.cons (.str l []) (tailItems ls))

/-- rendered lines (first line first), re-read as items: every line is one piece of text -/
def reify : List Nat → Items
  | [] => .nil
  | l :: ls => .cons (.str l []) (tailItems ls)

theorem action_none (tl f ind acc : Bool) : Brk.action .none tl f ind acc = .nothing := by
  cases tl <;> cases f <;> cases ind <;> cases acc <;> rfl

/-- a text item behind no pending break is appended as it is -/
theorem step_text (o : Opt) (tl f ind : Bool) (st : St) (hp : st.pending = .none) (l : Nat)
    (rest : Items) :
    loopItems o tl f ind (.cons (.str l []) rest) st
      = loopItems o tl f ind rest
          { column := st.column, groupColumn := st.groupColumn, pending := .none,
            lineWidth := st.lineWidth + l, childIndented := st.childIndented, firstItem := false,
            out := st.out.append [l] } := by
  have hnl : ∀ acc, Brk.needsLinebreak .none tl f acc = false := by intro acc; rfl
  simp only [loopItems, isIndentedBlock, Bool.false_eq_true, if_false, preAdjust, hp, hnl,
    Bool.false_and, renderItem, List.reverse_cons, List.reverse_nil, List.nil_append]
  have hr : ∀ fw, resolvePending o ind st fw = .none := by intro fw; simp [resolvePending, hp]
  simp [stepItem, hp, hr, action_none, Out.firstW, Out.multi, Out.lastW]

theorem emit_newline (out : Out) (l : Nat) : (Out.newline out).append [l] = l :: out := by
  simp [Out.newline, Out.append, Out.emit]

theorem step_lineBreak (o : Opt) (tl f ind : Bool) (st : St) (rest : Items) :
    loopItems o tl f ind (.cons .lineBreak rest) st
      = loopItems o tl f ind rest { st with out := st.out.newline, pending := .none } := by
  simp [loopItems]

theorem loop_tail (o : Opt) (tl f ind : Bool) : ∀ (ls : List Nat) (st : St), st.pending = .none →
    ∃ st', loopItems o tl f ind (tailItems ls) st = some st' ∧ st'.out = ls.reverse ++ st.out
  | [], st, _ => ⟨st, by simp [tailItems, loopItems], by simp⟩
  | l :: ls, st, _ => by
      have e1 : tailItems (l :: ls) = .cons .lineBreak (.cons (.str l []) (tailItems ls)) := rfl
      rw [e1, step_lineBreak, step_text o tl f ind _ rfl l (tailItems ls)]
      obtain ⟨st', h1, h2⟩ := loop_tail o tl f ind ls
        { column := st.column, groupColumn := st.groupColumn, pending := .none,
          lineWidth := st.lineWidth + l, childIndented := st.childIndented, firstItem := false,
          out := (Out.newline st.out).append [l] } rfl
      refine ⟨st', h1, ?_⟩
      rw [h2, emit_newline]
      simp

/-- `render (reify lines) = lines`, whatever the options, column and `indented` flag. -/
theorem render_reify (o : Opt) (ind : Bool) (col : Nat) (l : Nat) (ls : List Nat) :
    renderGroupLines o (reify (l :: ls)) ind col = some (l :: ls) := by
  have e1 : reify (l :: ls) = .cons (.str l []) (tailItems ls) := rfl
  rw [e1]
  simp only [renderGroupLines, renderItem]
  by_cases hc : (tooLong o.lineLen col (.cons (.str l []) (tailItems ls))
      || anyItem forceBreak (.cons (.str l []) (tailItems ls))
      || lastIs isIndentedBlock (.cons (.str l []) (tailItems ls))) = true
  · -- break branch
    rw [if_pos hc, step_text o _ _ ind _ rfl l (tailItems ls)]
    obtain ⟨st', h1, h2⟩ := loop_tail o (tooLong o.lineLen col (.cons (.str l []) (tailItems ls)))
      (anyItem forceBreak (.cons (.str l []) (tailItems ls))) ind ls
      { column := col, groupColumn := col, pending := .none, lineWidth := col + l,
        childIndented := false, firstItem := false, out := Out.append [0] [l] } rfl
    rw [h1]
    simp [h2, append_single]
  · -- single-line branch: only possible without further lines
    rw [if_neg hc]
    cases ls with
    | nil => simp [tailItems, flatItems, renderItem, append_single]
    | cons l2 ls2 =>
      exfalso
      apply hc
      simp [tailItems, anyItem, forceBreak]

/-! ## a group that is broken because it is too long renders as if its breaks were forced -/

/-- breaks whose behaviour in a broken group does not depend on WHY the group is broken -/
def okBrk (b : Brk) : Bool := b != .spaceOrIndent && b != .spaceOrReturn

/-- direct items: no `SpaceOrIndent` / `SpaceOrReturn` break and no `OptionalChar` -/
def okItems : Items → Bool
  | .nil => true
  | .cons (.brk b) rest => okBrk b && okItems rest
  | .cons (.optChar _) _ => false
  | .cons _ rest => okItems rest

theorem nl_eq (b : Brk) (h : okBrk b = true) (tl acc : Bool) :
    b.needsLinebreak true false true = b.needsLinebreak tl true acc := by
  cases b <;> cases tl <;> cases acc <;> first | rfl | (simp [okBrk] at h)

theorem ni_eq (b : Brk) (h : okBrk b = true) (tl ind : Bool) :
    b.needsIndent true false ind = b.needsIndent tl true ind := by
  cases b <;> cases tl <;> cases ind <;> first | rfl | (simp [okBrk] at h)

theorem act_eq (b : Brk) (h : okBrk b = true) (hs : b ≠ .spaceOrIndentIfNecessary) (tl ind acc : Bool) :
    b.action true false ind true = b.action tl true ind acc := by
  cases b <;> cases tl <;> cases ind <;> cases acc <;>
    first | rfl | (exact absurd rfl hs) | (simp [okBrk] at h)

theorem preAdjust_eq (o : Opt) (tl : Bool) (st : St) (h : okBrk st.pending = true) :
    preAdjust o true false false st = preAdjust o tl true false st := by
  simp only [preAdjust, Bool.and_false, Bool.not_false]
  rw [nl_eq st.pending h tl true, ni_eq st.pending h tl false]

theorem resolve_ok (o : Opt) (st : St) (fw : Nat) (h : okBrk st.pending = true) :
    okBrk (resolvePending o false st fw) = true ∧ resolvePending o false st fw ≠ .spaceOrIndentIfNecessary := by
  unfold resolvePending
  cases hp : st.pending <;> simp only [hp] at h ⊢ <;>
    first
    | (split <;> simp [okBrk, ifNecessaryBreak] <;> done)
    | (simp [okBrk]; done)
    | (simp [okBrk] at h; done)

theorem stepItem_eq (o : Opt) (tl : Bool) (st : St) (gc : Nat) (ci : Bool) (t : Out)
    (h : okBrk st.pending = true) :
    stepItem o true false false st gc ci t = stepItem o tl true false st gc ci t := by
  obtain ⟨h1, h2⟩ := resolve_ok o st t.firstW h
  have hk := act_eq (resolvePending o false st t.firstW) h1 h2 tl false (!(st.firstItem && false))
  simp only [Bool.and_false, Bool.not_false] at hk
  simp only [stepItem, Bool.and_false, Bool.not_false, hk]

theorem render_ro (o : Opt) (i : Item) (a r1 r2 : Bool) (c : Nat) (h : ∀ w, i ≠ .optChar w) :
    renderItem o i a r1 c = renderItem o i a r2 c := by
  cases i with
  | optChar w => exact absurd rfl (h w)
  | _ => simp [renderItem]

theorem okBrk_stepBrk (o : Opt) (b : Brk) (st : St) (h : okBrk b = true) :
    okBrk (stepBrk o false b st).pending = true := by
  cases b <;> simp_all [stepBrk, okBrk]

/-- `loopItems` with (too_long, no forced break) = `loopItems` with (any too_long, forced break), in a
group that is not itself indented, for item lists without `SpaceOrIndent`/`SpaceOrReturn`/`OptionalChar`. -/
theorem tooLong_as_force (o : Opt) (tl : Bool) : ∀ (is : Items) (st : St), okItems is = true →
    okBrk st.pending = true →
    loopItems o true false false is st = loopItems o tl true false is st
  | .nil, st, _, _ => by simp [loopItems]
  | .cons (.brk b) rest, st, h, _ => by
      simp only [okItems, Bool.and_eq_true] at h
      simp only [loopItems]
      exact tooLong_as_force o tl rest _ h.2 (okBrk_stepBrk o b st h.1)
  | .cons .lineBreak rest, st, h, _ => by
      simp only [okItems] at h
      simp only [loopItems]
      exact tooLong_as_force o tl rest _ h (by simp [okBrk])
  | .cons (.optChar w) rest, st, h, _ => by simp [okItems] at h
  | .cons (.char w) rest, st, h, hp => by
      simp only [okItems] at h
      simp only [loopItems, isIndentedBlock, Bool.false_eq_true, if_false]
      rw [preAdjust_eq o tl st hp, render_ro o (.char w) _ (true || _) (tl || _) _ (by intro w'; simp)]
      cases renderItem o (.char w) (preAdjust o tl true false st).2 (tl || (preAdjust o tl true false st).2)
          (preAdjust o tl true false st).1 with
      | none => rfl
      | some t =>
        simp only []
        rw [stepItem_eq o tl st _ _ t hp]
        exact tooLong_as_force o tl rest _ h (by simp [stepItem, okBrk])
  | .cons (.str w m) rest, st, h, hp => by
      simp only [okItems] at h
      simp only [loopItems, isIndentedBlock, Bool.false_eq_true, if_false]
      rw [preAdjust_eq o tl st hp, render_ro o (.str w m) _ (true || _) (tl || _) _ (by intro w'; simp)]
      cases renderItem o (.str w m) (preAdjust o tl true false st).2 (tl || (preAdjust o tl true false st).2)
          (preAdjust o tl true false st).1 with
      | none => rfl
      | some t =>
        simp only []
        rw [stepItem_eq o tl st _ _ t hp]
        exact tooLong_as_force o tl rest _ h (by simp [stepItem, okBrk])
  | .cons .error rest, st, h, hp => by
      simp only [okItems] at h
      simp only [loopItems, isIndentedBlock, Bool.false_eq_true, if_false]
      rw [preAdjust_eq o tl st hp]
      simp [renderItem]
  | .cons (.group js) rest, st, h, hp => by
      simp only [okItems] at h
      simp only [loopItems]
      by_cases hb : isIndentedBlock (.group js) = true
      · simp only [hb, if_true]
        cases renderItem o (.group js) false false st.column with
        | none => rfl
        | some t =>
          simp only []
          exact tooLong_as_force o tl rest _ h (by simp [okBrk])
      · simp only [hb, if_false]
        rw [preAdjust_eq o tl st hp,
          render_ro o (.group js) _ (true || _) (tl || _) _ (by intro w'; simp)]
        cases renderItem o (.group js) (preAdjust o tl true false st).2
            (tl || (preAdjust o tl true false st).2) (preAdjust o tl true false st).1 with
        | none => rfl
        | some t =>
          simp only []
          rw [stepItem_eq o tl st _ _ t hp]
          exact tooLong_as_force o tl rest _ h (by simp [stepItem, okBrk])

/-! ## the builder's second-pass upgrade `MaybeIndent → IndentedBreak` does not change the rendering -/

/-- What the builder does on the second pass where the first pass broke the line: `maybe_force_indent`
/ `indented_break` push `IndentedBreak` where the first pass had `MaybeIndent`. -/
def upgrade : Items → Items
  | .nil => .nil
  | .cons (.brk .maybeIndent) rest => .cons (.brk .indentedBreak) (upgrade rest)
  | .cons i rest => .cons i (upgrade rest)

/-- states that differ at most by a pending `MaybeIndent` vs `IndentedBreak` -/
def Rel (st st' : St) : Prop :=
  st' = st ∨ (st.pending = .maybeIndent ∧ st' = { st with pending := .indentedBreak })

theorem rel_fields (st st' : St) (h : Rel st st') :
    st'.column = st.column ∧ st'.groupColumn = st.groupColumn ∧ st'.lineWidth = st.lineWidth
      ∧ st'.childIndented = st.childIndented ∧ st'.firstItem = st.firstItem ∧ st'.out = st.out := by
  rcases h with h | ⟨_, h⟩ <;> subst h <;> simp

theorem rel_preAdjust (o : Opt) (tl : Bool) (st st' : St) (h : Rel st st') :
    preAdjust o tl true false st' = preAdjust o tl true false st := by
  rcases h with h | ⟨hp, h⟩
  · subst h; rfl
  · subst h
    cases tl <;> simp [preAdjust, hp, Brk.needsLinebreak, Brk.needsIndent]

theorem rel_stepItem (o : Opt) (tl : Bool) (st st' : St) (gc : Nat) (ci : Bool) (t : Out)
    (h : Rel st st') : stepItem o tl true false st' gc ci t = stepItem o tl true false st gc ci t := by
  rcases h with h | ⟨hp, h⟩
  · subst h; rfl
  · subst h
    cases tl <;> cases hf : st.firstItem <;>
      simp [stepItem, resolvePending, hp, hf, Brk.action, Brk.needsLinebreak, Brk.needsIndent]

theorem rel_stepBrk (o : Opt) (b : Brk) (st st' : St) (h : Rel st st') (hb : b ≠ .maybeIndent) :
    stepBrk o false b st' = stepBrk o false b st := by
  have hf := rel_fields st st' h
  obtain ⟨h1, h2, h3, h4, h5, h6⟩ := hf
  cases b <;> first | (exact absurd rfl hb) | (cases st; cases st'; simp_all [stepBrk])

theorem rel_block (st st' : St) (h : Rel st st') (t : Out) :
    ({ st' with out := st'.out.append t, pending := Brk.none } : St)
      = { st with out := st.out.append t, pending := Brk.none } := by
  rcases h with h | ⟨_, h⟩ <;> subst h <;> rfl

theorem rel_maybeIndent (o : Opt) (st st' : St) (h : Rel st st') :
    Rel (stepBrk o false .maybeIndent st) (stepBrk o false .indentedBreak st') := by
  obtain ⟨h1, h2, h3, h4, h5, h6⟩ := rel_fields st st' h
  right
  refine ⟨by simp [stepBrk], ?_⟩
  cases st; cases st'; simp_all [stepBrk]

/-- Under a forced break, in a group that is not itself indented, `upgrade` does not change the output. -/
theorem loop_upgrade (o : Opt) (tl : Bool) : ∀ (is : Items) (st st' : St), Rel st st' →
    (loopItems o tl true false (upgrade is) st').map (·.out)
      = (loopItems o tl true false is st).map (·.out)
  | .nil, st, st', h => by
      simp [upgrade, loopItems, (rel_fields st st' h).2.2.2.2.2]
  | .cons (.brk b) rest, st, st', h => by
      by_cases hb : b = .maybeIndent
      · subst hb
        simp only [upgrade, loopItems]
        exact loop_upgrade o tl rest _ _ (rel_maybeIndent o st st' h)
      · have e : upgrade (.cons (.brk b) rest) = .cons (.brk b) (upgrade rest) := by
          cases b <;> first | rfl | (exact absurd rfl hb)
        rw [e]
        simp only [loopItems, rel_stepBrk o b st st' h hb]
        exact loop_upgrade o tl rest _ _ (Or.inl rfl)
  | .cons .lineBreak rest, st, st', h => by
      simp only [upgrade, loopItems]
      rcases h with h | ⟨_, h⟩ <;> subst h <;> exact loop_upgrade o tl rest _ _ (Or.inl rfl)
  | .cons (.char w) rest, st, st', h => by
      simp only [upgrade, loopItems, isIndentedBlock, Bool.false_eq_true, if_false,
        rel_preAdjust o tl st st' h]
      cases renderItem o (.char w) (preAdjust o tl true false st).2 (tl || (preAdjust o tl true false st).2)
          (preAdjust o tl true false st).1 with
      | none => rfl
      | some t =>
        simp only [rel_stepItem o tl st st' _ _ t h]
        exact loop_upgrade o tl rest _ _ (Or.inl rfl)
  | .cons (.optChar w) rest, st, st', h => by
      simp only [upgrade, loopItems, isIndentedBlock, Bool.false_eq_true, if_false,
        rel_preAdjust o tl st st' h]
      cases renderItem o (.optChar w) (preAdjust o tl true false st).2 (tl || (preAdjust o tl true false st).2)
          (preAdjust o tl true false st).1 with
      | none => rfl
      | some t =>
        simp only [rel_stepItem o tl st st' _ _ t h]
        exact loop_upgrade o tl rest _ _ (Or.inl rfl)
  | .cons (.str w m) rest, st, st', h => by
      simp only [upgrade, loopItems, isIndentedBlock, Bool.false_eq_true, if_false,
        rel_preAdjust o tl st st' h]
      cases renderItem o (.str w m) (preAdjust o tl true false st).2 (tl || (preAdjust o tl true false st).2)
          (preAdjust o tl true false st).1 with
      | none => rfl
      | some t =>
        simp only [rel_stepItem o tl st st' _ _ t h]
        exact loop_upgrade o tl rest _ _ (Or.inl rfl)
  | .cons .error rest, st, st', h => by
      simp [upgrade, loopItems, isIndentedBlock, renderItem]
  | .cons (.group js) rest, st, st', h => by
      simp only [upgrade, loopItems]
      by_cases hb : isIndentedBlock (.group js) = true
      · simp only [hb, if_true]
        simp only [rel_block st st' h]
        rw [(rel_fields st st' h).1]
        cases renderItem o (.group js) false false st.column with
        | none => rfl
        | some t => exact loop_upgrade o tl rest _ _ (Or.inl rfl)
      · simp only [hb, if_false, rel_preAdjust o tl st st' h]
        cases renderItem o (.group js) (preAdjust o tl true false st).2
            (tl || (preAdjust o tl true false st).2) (preAdjust o tl true false st).1 with
        | none => rfl
        | some t =>
          simp only [rel_stepItem o tl st st' _ _ t h]
          exact loop_upgrade o tl rest _ _ (Or.inl rfl)

theorem upgrade_noop : ∀ (is : Items), anyItem forceBreak (upgrade is) = false → upgrade is = is
  | .nil, _ => rfl
  | .cons (.brk b) rest, h => by
      cases b <;>
        first
        | (simp [upgrade, anyItem, forceBreak, Brk.forces] at h; done)
        | (simp only [upgrade, anyItem, Bool.or_eq_false_iff] at h
           simp only [upgrade, upgrade_noop rest h.2])
  | .cons (.char w) rest, h => by
      simp only [upgrade, anyItem, Bool.or_eq_false_iff] at h
      simp only [upgrade, upgrade_noop rest h.2]
  | .cons (.optChar w) rest, h => by
      simp only [upgrade, anyItem, Bool.or_eq_false_iff] at h
      simp only [upgrade, upgrade_noop rest h.2]
  | .cons (.str w m) rest, h => by
      simp only [upgrade, anyItem, Bool.or_eq_false_iff] at h
      simp only [upgrade, upgrade_noop rest h.2]
  | .cons .lineBreak rest, h => by simp [upgrade, anyItem, forceBreak] at h
  | .cons .error rest, h => by
      simp only [upgrade, anyItem, Bool.or_eq_false_iff] at h
      simp only [upgrade, upgrade_noop rest h.2]
  | .cons (.group js) rest, h => by
      simp only [upgrade, anyItem, Bool.or_eq_false_iff] at h
      simp only [upgrade, upgrade_noop rest h.2]

/-- The group-level statement: a group (not itself indented) that is broken only because it is too
long, without `SpaceOrIndent`/`SpaceOrReturn`/`OptionalChar` direct items, renders to the same text
when its `MaybeIndent` breaks are upgraded to `IndentedBreak`. -/
theorem render_upgrade (o : Opt) (is : Items) (ro : Bool) (col : Nat) (hok : okItems is = true)
    (htl : tooLong o.lineLen col is = true) (hf : anyItem forceBreak is = false) :
    renderItem o (.group (upgrade is)) false ro col = renderItem o (.group is) false ro col := by
  by_cases hf' : anyItem forceBreak (upgrade is) = false
  · rw [upgrade_noop is hf']
  · have hf'' : anyItem forceBreak (upgrade is) = true := by simpa using hf'
    simp only [renderItem, htl, hf, hf'', Bool.true_or, Bool.or_true, if_true]
    rw [tooLong_as_force o (tooLong o.lineLen col (upgrade is)) is _ hok (by simp [okBrk])]
    exact loop_upgrade o _ is _ _ (Or.inl rfl)

end KotoVerif.C11.LayoutLemmas
