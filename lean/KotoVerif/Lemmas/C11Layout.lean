/-
Lemmas about the layout-decision model (Model/Layout.lean), core Lean only.
-/
import KotoVerif.Model.Layout

namespace KotoVerif.C11.LayoutLemmas
open KotoVerif.Layout

mutual
/-- measured length vs emitted width, per item -/
theorem measure_item : ∀ (i : Item), flatOneLine i = true →
    lineLength i + returnSpaces i = flatWidth i + optWidth i
  | .char w, _ => by simp [lineLength, returnSpaces, flatWidth, optWidth]
  | .optChar w, _ => by simp [lineLength, returnSpaces, flatWidth, optWidth]
  | .str w l, _ => by simp [lineLength, returnSpaces, flatWidth, optWidth]
  | .lineBreak, h => by simp [flatOneLine] at h
  | .error, h => by simp [flatOneLine] at h
  | .brk b, h => by
      cases b <;> simp [flatOneLine, Brk.forces] at h <;>
        simp [lineLength, returnSpaces, flatWidth, optWidth, Brk.len, Brk.flatWidth]
  | .group is, h => by
      have := measure_items is (by simpa [flatOneLine] using h)
      simpa [lineLength, returnSpaces, flatWidth, optWidth] using this
/-- measured length vs emitted width, per item list -/
theorem measure_items : ∀ (is : Items), flatOneLineItems is = true →
    lineLengthItems is + returnSpacesItems is = flatWidthItems is + optWidthItems is
  | .nil, _ => by simp [lineLengthItems, returnSpacesItems, flatWidthItems, optWidthItems]
  | .cons i rest, h => by
      simp only [flatOneLineItems, Bool.and_eq_true] at h
      have hi := measure_item i h.1
      have hr := measure_items rest h.2
      cases i with
      | char w => simp [lineLengthItems, returnSpacesItems, flatWidthItems, optWidthItems, lineLength, returnSpaces, flatWidth, optWidth] at hi ⊢; omega
      | optChar w => simp [lineLengthItems, returnSpacesItems, flatWidthItems, optWidthItems, lineLength, returnSpaces, flatWidth, optWidth] at hi ⊢; omega
      | str w l => simp [lineLengthItems, returnSpacesItems, flatWidthItems, optWidthItems, lineLength, returnSpaces, flatWidth, optWidth] at hi ⊢; omega
      | lineBreak => simp [flatOneLine] at h
      | error => simp [flatOneLine] at h
      | brk b =>
        have hb : b.forces = false := by simpa [flatOneLine] using h.1
        simp only [lineLengthItems, hb, returnSpacesItems, flatWidthItems, optWidthItems]
        simp only [lineLength] at hi
        simp only [Bool.false_eq_true, if_false]
        omega
      | group js =>
        simp only [lineLengthItems, returnSpacesItems, flatWidthItems, optWidthItems]
        simp only [lineLength] at hi
        omega
end

theorem anyForce_false : ∀ (is : Items), flatOneLineItems is = true → anyItem forceBreak is = false
  | .nil, _ => rfl
  | .cons i rest, h => by
      simp only [flatOneLineItems, Bool.and_eq_true] at h
      have hr := anyForce_false rest h.2
      have hi : forceBreak i = false := by
        cases i with
        | lineBreak => simp [flatOneLine] at h
        | brk b => simpa [flatOneLine, forceBreak] using h.1
        | _ => rfl
      simp [anyItem, hi, hr]

theorem notBlock_of_flat (i : Item) (h : flatOneLine i = true) : isIndentedBlock i = false := by
  cases i with
  | group js =>
    cases js with
    | nil => rfl
    | cons j rest =>
      cases j with
      | brk b =>
        cases b <;> first | rfl | (simp [flatOneLine, flatOneLineItems, Brk.forces] at h)
      | _ => rfl
  | _ => rfl

theorem lastBlock_false : ∀ (is : Items), flatOneLineItems is = true → lastIs isIndentedBlock is = false
  | .nil, _ => rfl
  | .cons i .nil, h => by
      simp only [flatOneLineItems, Bool.and_eq_true] at h
      simpa [lastIs] using notBlock_of_flat i h.1
  | .cons i (.cons j rest), h => by
      simp only [flatOneLineItems, Bool.and_eq_true] at h
      have := lastBlock_false (.cons j rest) (by simp [flatOneLineItems, h.2.1, h.2.2])
      simpa [lastIs] using this

/-- Under `flatOneLine` the decision is the width test alone. -/
theorem broken_eq_tooLong (lineLen col : Nat) (is : Items) (h : flatOneLineItems is = true) :
    broken lineLen col is = tooLong lineLen col is := by
  simp [broken, anyForce_false is h, lastBlock_false is h]

mutual
theorem nested_item (lineLen col : Nat) : ∀ (i : Item), flatOneLine i = true →
    lineLength i ≤ lineLen - col → nestedFlat lineLen col i = true
  | .group js, h, hle => by
      have hjs : flatOneLineItems js = true := by simpa [flatOneLine] using h
      have hle' : lineLengthItems js ≤ lineLen - col := by simpa [lineLength] using hle
      have hb : broken lineLen col js = false := by
        rw [broken_eq_tooLong lineLen col js hjs]
        simp [tooLong]
        omega
      simp [nestedFlat, hb, nested_items lineLen col js hjs hle']
  | .char _, _, _ => rfl
  | .optChar _, _, _ => rfl
  | .str _ _, _, _ => rfl
  | .lineBreak, _, _ => rfl
  | .brk _, _, _ => rfl
  | .error, _, _ => rfl
theorem nested_items (lineLen col : Nat) : ∀ (is : Items), flatOneLineItems is = true →
    lineLengthItems is ≤ lineLen - col → nestedFlatItems lineLen col is = true
  | .nil, _, _ => rfl
  | .cons i rest, h, hle => by
      simp only [flatOneLineItems, Bool.and_eq_true] at h
      have hsplit : lineLength i + lineLengthItems rest ≤ lineLen - col ∨ True := Or.inr trivial
      have hi : lineLength i ≤ lineLen - col ∧ lineLengthItems rest ≤ lineLen - col := by
        cases i with
        | brk b =>
          have hb : b.forces = false := by simpa [flatOneLine] using h.1
          simp only [lineLengthItems, hb, Bool.false_eq_true, if_false] at hle
          simp only [lineLength]
          omega
        | lineBreak => simp [flatOneLine] at h
        | error => simp [flatOneLine] at h
        | char w => simp only [lineLengthItems] at hle; simp only [lineLength]; omega
        | optChar w => simp only [lineLengthItems] at hle; simp only [lineLength]; omega
        | str w l => simp only [lineLengthItems] at hle; simp only [lineLength]; omega
        | group js => simp only [lineLengthItems] at hle; simp only [lineLength]; omega
      simp [nestedFlatItems, nested_item lineLen col i h.1 hi.1, nested_items lineLen col rest h.2 hi.2]
end

/-! ## the render functions on the single-line path -/

theorem append_single (a w : Nat) : Out.append [a] [w] = [a + w] := by
  simp [Out.append, Out.emit]

mutual
theorem render_item_flat (o : Opt) (col : Nat) : ∀ (i : Item), flatOneLine i = true →
    lineLength i ≤ o.lineLen - col → renderItem o i false false col = some [flatWidth i]
  | .char w, _, _ => by simp [renderItem, flatWidth]
  | .optChar w, _, _ => by simp [renderItem, flatWidth]
  | .str w more, h, _ => by
      have : more = [] := by simpa [flatOneLine] using h
      subst this
      simp [renderItem, flatWidth]
  | .lineBreak, h, _ => by simp [flatOneLine] at h
  | .error, h, _ => by simp [flatOneLine] at h
  | .brk b, _, _ => by simp [renderItem, flatWidth]
  | .group is, h, hle => by
      have hjs : flatOneLineItems is = true := by simpa [flatOneLine] using h
      have hle' : lineLengthItems is ≤ o.lineLen - col := by simpa [lineLength] using hle
      have h1 : tooLong o.lineLen col is = false := by simp [tooLong]; omega
      have h2 := anyForce_false is hjs
      have h3 := lastBlock_false is hjs
      have := flat_items o col is hjs hle' 0
      simp only [renderItem, h1, h2, h3, Bool.or_self, Bool.false_eq_true, if_false, flatWidth]
      simpa using this
theorem flat_items (o : Opt) (col : Nat) : ∀ (is : Items), flatOneLineItems is = true →
    lineLengthItems is ≤ o.lineLen - col →
    ∀ a, flatItems o is col [a] = some [a + flatWidthItems is]
  | .nil, _, _, a => by simp [flatItems, flatWidthItems]
  | .cons i rest, h, hle, a => by
      simp only [flatOneLineItems, Bool.and_eq_true] at h
      have hi : lineLength i ≤ o.lineLen - col ∧ lineLengthItems rest ≤ o.lineLen - col := by
        cases i with
        | brk b =>
          have hb : b.forces = false := by simpa [flatOneLine] using h.1
          simp only [lineLengthItems, hb, Bool.false_eq_true, if_false] at hle
          simp only [lineLength]
          omega
        | lineBreak => simp [flatOneLine] at h
        | error => simp [flatOneLine] at h
        | char w => simp only [lineLengthItems] at hle; simp only [lineLength]; omega
        | optChar w => simp only [lineLengthItems] at hle; simp only [lineLength]; omega
        | str w l => simp only [lineLengthItems] at hle; simp only [lineLength]; omega
        | group js => simp only [lineLengthItems] at hle; simp only [lineLength]; omega
      have hr := render_item_flat o col i h.1 hi.1
      have hrest := flat_items o col rest h.2 hi.2 (a + flatWidth i)
      simp only [flatItems, hr, append_single, hrest, flatWidthItems]
      congr 2
      omega
end

end KotoVerif.C11.LayoutLemmas
