/-
C01 layer 5: `compile_sem`, proved by structural induction on the expression.
-/
import KotoVerif.Lemmas.C01Sem2

namespace KotoVerif.Compile

variable {S : Sem}

/-- the statement proved for every expression -/
def SemOk (S : Sem) (e : Expr) : Prop :=
  ∀ (m : Mode) (F : Frame) (code : Code) (out : Out) (F' : Frame) (E : List VarId) (fx : Option VarId),
    compile e m F = some (code, out, F') → WF F → ModeFx m fx F → safe E fx e = true →
    ∀ (σ : Regs S) (ρ ρ' : Env S) (v : S.V), RelEx E F σ ρ → eval S e ρ = some (v, ρ') →
    ∃ σ', exec S code σ = some σ' ∧ RelEx (addOpt fx E) F' σ' ρ' ∧
      (∀ r, out.reg = some r → σ' r = v) ∧ TempsKept m F σ σ'

theorem sem_lit (e : Expr) (w : S.V) (f : Reg → Instr)
    (hc : ∀ m F, compile e m F = (assignResult m F).bind (fun p => some (instrIf p.1.reg f, p.1, p.2)))
    (he : ∀ ρ : Env S, eval S e ρ = some (w, ρ))
    (hs : ∀ (σ : Regs S) r, stepInstr S (f r) σ = some (σ.set r w)) : SemOk S e := by
  intro m F code out F' E fx h hw hm _ σ ρ ρ' v hrel hev
  rw [hc] at h
  simp only [Option.bind_eq_some_iff, Prod.exists, Option.some.injEq, Prod.mk.injEq] at h
  obtain ⟨res, F1, ha, rfl, rfl, rfl⟩ := h
  rw [he] at hev
  simp only [Option.some.injEq, Prod.mk.injEq] at hev
  obtain ⟨rfl, rfl⟩ := hev
  obtain ⟨h1, h2, _, _⟩ := assignResult_spec ha
  exact finish_result ha (FrameLe.of_locals_eq h1 h2) (hw.of_locals_eq h1 h2) hm
    (relEx_of_assignResult ha hrel) (TempsKept.refl _ _ _) (fun r _ => hs σ r)

theorem sem_null : SemOk S .null :=
  sem_lit .null S.null .setNull (fun m F => by simp [compile, bind, Option.bind])
    (fun ρ => rfl) (fun σ r => rfl)

theorem sem_bool (b : Bool) : SemOk S (.bool b) :=
  sem_lit (.bool b) (S.ofBool b) (.setBool · b) (fun m F => by simp [compile, bind, Option.bind])
    (fun ρ => rfl) (fun σ r => rfl)

theorem sem_int (n : Int) : SemOk S (.int n) :=
  sem_lit (.int n) (S.ofInt n) (.setInt · n) (fun m F => by simp [compile, bind, Option.bind])
    (fun ρ => rfl) (fun σ r => rfl)

theorem sem_var (x : VarId) : SemOk S (.var x) := by
  intro m F code out F' E fx h hw hm hsafe σ ρ ρ' v hrel hev
  simp only [compile] at h
  simp only [eval, Option.map_eq_some_iff] at hev
  obtain ⟨w, hx, hev⟩ := hev
  simp only [Prod.mk.injEq] at hev
  obtain ⟨rfl, rfl⟩ := hev
  simp only [safe, Bool.not_eq_true', List.contains_eq_mem, decide_eq_false_iff_not] at hsafe
  cases hg : F.getAssigned x with
  | none => simp [hg] at h
  | some rx =>
    obtain ⟨q, hq1, hq2⟩ := hrel x w hx hsafe
    have := has_unique hw hq1 (getAssigned_has hg)
    subst this
    simp only [hg] at h
    cases m with
    | none =>
      simp at h; obtain ⟨rfl, rfl, rfl⟩ := h
      exact ⟨σ, rfl, hrel.addOpt, fun r h => by simp at h, TempsKept.refl _ _ _⟩
    | any =>
      simp at h; obtain ⟨rfl, rfl, rfl⟩ := h
      refine ⟨σ, rfl, hrel.addOpt, ?_, TempsKept.refl _ _ _⟩
      intro r hr; simp at hr; subst hr; exact hq2
    | fixed r =>
      simp at h; obtain ⟨rfl, rfl, rfl⟩ := h
      refine ⟨σ.set r (σ q), rfl, ?_, ?_, ?_⟩
      · exact hrel.setResult (FrameLe.refl _) hw hm (Or.inl rfl) _
      · intro r' hr; simp at hr; subst hr; simp [hq2]
      · exact (TempsKept.refl _ _ _).setResult (Or.inl rfl) _

theorem sem_un (op : UnOp) (e : Expr) (ih : SemOk S e) : SemOk S (.un op e) := by
  intro m F code out F' E fx h hw hm hsafe σ ρ ρ' v hrel hev
  have ff := compile_frame _ _ _ _ _ _ h hw
  simp only [compile, bind, Option.bind_eq_some_iff, Prod.exists, pure, Option.some.injEq, Prod.mk.injEq] at h
  obtain ⟨res, F1, ha, c, o, F2, hc, vr, hvr, F3, hp, rfl, rfl, rfl⟩ := h
  simp only [eval] at hev
  cases he : eval S e ρ with
  | none => simp [he] at hev
  | some p =>
    obtain ⟨ve, ρ1⟩ := p
    simp only [he, Option.map_eq_some_iff, Prod.mk.injEq] at hev
    obtain ⟨w, hop, rfl, rfl⟩ := hev
    obtain ⟨h1, h2, _, _⟩ := assignResult_spec ha
    have hw1 := hw.of_locals_eq h1 h2
    simp only [safe] at hsafe
    obtain ⟨σ1, x1, x2, x3, x4⟩ := ih .any F1 c o F2 E Option.none hc hw1 trivial hsafe σ ρ ρ1 ve
      (relEx_of_assignResult ha hrel) he
    obtain ⟨p1, p2, _⟩ := popIf_spec hp
    have hrel3 : RelEx E F3 σ1 ρ1 := x2.frame (FrameLe.of_locals_eq p1 p2)
    obtain ⟨σ', y1, y2, y3, y4⟩ := finish_result (f := fun r => Instr.unop op r vr) (v := w) ha ff.le ff.wf hm hrel3
      (tempsKept_any_of ha x4) (fun r _ => by simp [stepInstr, x3 vr hvr, hop])
    exact ⟨σ', by rw [exec_seq x1]; exact y1, y2, y3, y4⟩

/-- the value an operand left in its register is still there after the next operand has run -/
theorem operand_kept {a b : Expr} {E : List VarId} {F1 F2 F3 : Frame} {ca cb : Code} {oa ob : Out}
    {ra : Reg} {σ1 σ2 : Regs S} {ρ ρ1 ρ2 : Env S} {va vb : S.V}
    (hca : compile a .any F1 = some (ca, oa, F2)) (hw1 : WF F1)
    (hcb : compile b .any F2 = some (cb, ob, F3))
    (hra : oa.reg = some ra) (hlate : lateOk E a b = true)
    (hea : eval S a ρ = some (va, ρ1)) (heb : eval S b ρ1 = some (vb, ρ2))
    (hv : σ1 ra = va) (hrel : RelEx E F3 σ2 ρ2) (hk : TempsKept .any F2 σ1 σ2) : σ2 ra = va := by
  have ffa := compile_frame _ _ _ _ _ _ hca hw1
  have ffb := compile_frame _ _ _ _ _ _ hcb ffa.wf
  rcases ffa.shape with hs | ⟨_, y, r, hy, hr, hhas⟩
  · -- a fresh temporary, live while `b` is compiled
    subst hs
    simp only [Option.some.injEq] at hra
    subst hra
    have := ffa.tc
    simp [tempCount] at this
    rw [hk _ (by rw [ffa.le.tb]; omega) (by rw [ffa.le.tb]; omega) (by simp)]
    exact hv
  · -- a local's own register: `b` does not assign that local
    rw [hr] at hra
    simp only [Option.some.injEq] at hra
    subst hra
    simp only [lateOk, hy, Bool.and_eq_true, Bool.not_eq_true', List.contains_eq_mem,
      decide_eq_false_iff_not] at hlate
    have h1 : ρ1 y = some va := outLocal_eval a y ρ ρ1 va hy hea
    have h2 : ρ2 y = some va := by rw [eval_not_writes y b ρ1 ρ2 vb hlate.2 heb]; exact h1
    obtain ⟨q, hq1, hq2⟩ := hrel y va h2 hlate.1
    have := has_unique ffb.wf hq1 (ffb.le.has _ _ hhas)
    subst this
    exact hq2

theorem sem_binlike (mk : Expr → Expr → Expr) (op : BinOp) (a b : Expr) (iha : SemOk S a) (ihb : SemOk S b)
    (hsafe_eq : ∀ E fx, safe E fx (mk a b) = (safe E Option.none a && safe E Option.none b && lateOk E a b))
    (heval : ∀ ρ : Env S, eval S (mk a b) ρ =
      match eval S a ρ with
      | some (va, ρ1) =>
        match eval S b ρ1 with
        | some (vb, ρ2) => (S.binop op va vb).map (fun r => (r, ρ2))
        | none => Option.none
      | none => Option.none)
    (m : Mode) (F : Frame) (code : Code) (out : Out) (F' : Frame) (E : List VarId) (fx : Option VarId)
    (hall : compile (mk a b) m F = some (code, out, F')) (hw : WF F) (hm : ModeFx m fx F)
    (hsafe : safe E fx (mk a b) = true)
    -- the operand part shared by `bin` (with a result register) and `cmp`
    (res : Out) (F1 G : Frame) (ha : assignResult m F = some (res, F1))
    (hG1 : G.locals = F1.locals) (hG2 : G.tb = F1.tb) (hG3 : F1.tc ≤ G.tc)
    (ca cb : Code) (oa ob : Out) (F2 F3 : Frame) (ra rb : Reg)
    (hca : compile a .any G = some (ca, oa, F2)) (hra : oa.reg = some ra)
    (hcb : compile b .any F2 = some (cb, ob, F3)) (hrb : ob.reg = some rb)
    (hF' : F'.locals = F3.locals ∧ F'.tb = F3.tb)
    (hcode : code = .seq ca (.seq cb (instrIf res.reg (fun r => .binop op r ra rb)))) (hout : out = res)
    (σ : Regs S) (ρ ρ' : Env S) (v : S.V) (hrel : RelEx E F σ ρ) (hev : eval S (mk a b) ρ = some (v, ρ')) :
    ∃ σ', exec S code σ = some σ' ∧ RelEx (addOpt fx E) F' σ' ρ' ∧
      (∀ r, out.reg = some r → σ' r = v) ∧ TempsKept m F σ σ' := by
  have ff := compile_frame _ _ _ _ _ _ hall hw
  rw [heval] at hev
  rw [hsafe_eq] at hsafe
  simp only [Bool.and_eq_true] at hsafe
  obtain ⟨⟨hsa, hsb⟩, hlate⟩ := hsafe
  cases hea : eval S a ρ with
  | none => simp [hea] at hev
  | some p =>
    obtain ⟨va, ρ1⟩ := p
    simp only [hea] at hev
    cases heb : eval S b ρ1 with
    | none => simp [heb] at hev
    | some q =>
      obtain ⟨vb, ρ2⟩ := q
      simp only [heb, Option.map_eq_some_iff, Prod.mk.injEq] at hev
      obtain ⟨w, hop, rfl, rfl⟩ := hev
      obtain ⟨h1, h2, h3, _⟩ := assignResult_spec ha
      have hw1 := hw.of_locals_eq h1 h2
      have hwG := hw1.of_locals_eq hG1 hG2
      have hrelG : RelEx E G σ ρ := (relEx_of_assignResult ha hrel).frame (FrameLe.of_locals_eq hG1 hG2)
      obtain ⟨σ1, x1, x2, x3, x4⟩ := iha .any G ca oa F2 E Option.none hca hwG trivial hsa σ ρ ρ1 va hrelG hea
      have ffa := compile_frame _ _ _ _ _ _ hca hwG
      obtain ⟨σ2, y1, y2, y3, y4⟩ := ihb .any F2 cb ob F3 E Option.none hcb ffa.wf trivial hsb σ1 ρ1 ρ2 vb x2 heb
      have hva : σ2 ra = va := operand_kept hca hwG hcb hra hlate hea heb (x3 ra hra) y2 y4
      have hrel' : RelEx E F' σ2 ρ2 := y2.frame (FrameLe.of_locals_eq hF'.1 hF'.2)
      have hk : TempsKept m F σ σ2 := by
        have k1 : TempsKept m F σ σ1 :=
          (TempsKept.refl m F σ).sub x4 (by rw [hG2, h2]) (by omega) (by intro t ht; simp at ht)
        have := ffa.tc
        exact k1.sub y4 (by rw [ffa.le.tb, hG2, h2]) (by omega) (by intro t ht; simp at ht)
      obtain ⟨σ', z1, z2, z3, z4⟩ := finish_result (f := fun r => Instr.binop op r ra rb) (v := w) ha ff.le ff.wf hm
        hrel' hk (fun r _ => by simp [stepInstr, hva, y3 rb hrb, hop])
      subst hcode hout
      exact ⟨σ', by rw [exec_seq x1, exec_seq y1]; exact z1, z2, z3, z4⟩

end KotoVerif.Compile
