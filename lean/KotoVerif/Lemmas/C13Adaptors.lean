/-
C13 helper lemmas, part 2: every adaptor refines its list definition.

For an adaptor `A` over an inner iterator `c`:  `Fwd c s ys → Fwd (A c) (init s) (F ys)` where `F` is
the textbook list function (`List.map`, `List.take`, `List.drop`, `++`, …). Each proof exhibits the
relation between adaptor states and denoted lists and checks the two one-step conditions of
`fwd_coind`; adaptors with internal loops first get a lemma about the loop.
-/
import KotoVerif.Lemmas.C13Fwd

namespace KotoVerif.Iter

/-! ### one inner call per call -/

theorem each_fwd (f : Fn) (c : Co) (s : c.σ) (ys : List Val) (h : Fwd c s ys) :
    Fwd (eachCo f c) s (ys.map f.app) := by
  apply fwd_coind (eachCo f c) (fun (s : c.σ) xs => ∃ ys, Fwd c s ys ∧ xs = ys.map f.app)
  · intro (s : c.σ) ⟨ys, h, e⟩
    cases ys with
    | cons y ys => simp at e
    | nil =>
      have ⟨h1, h2⟩ := fwd_nil.mp h
      refine ⟨by simp [eachCo, h1], ?_⟩
      simp [eachCo, h1]
      exact h2
  · intro (s : c.σ) x xs ⟨ys, h, e⟩
    cases ys with
    | nil => simp at e
    | cons y ys =>
      simp at e
      have ⟨h1, h2⟩ := fwd_cons.mp h
      refine ⟨by simp [eachCo, h1, e.1], ?_⟩
      simp [eachCo, h1]
      exact ⟨ys, h2, e.2⟩
  · exact ⟨ys, h, rfl⟩

theorem pair_fwd (first : Bool) (c : Co) (s : c.σ) (ys : List Val) (h : Fwd c s ys) :
    Fwd (pairCo first c) s (ys.map (projPair first)) := by
  apply fwd_coind (pairCo first c) (fun (s : c.σ) xs => ∃ ys, Fwd c s ys ∧ xs = ys.map (projPair first))
  · intro (s : c.σ) ⟨ys, h, e⟩
    cases ys with
    | cons y ys => simp at e
    | nil =>
      have ⟨h1, h2⟩ := fwd_nil.mp h
      refine ⟨by simp [pairCo, h1], ?_⟩
      simp [pairCo]
      exact h2
  · intro (s : c.σ) x xs ⟨ys, h, e⟩
    cases ys with
    | nil => simp at e
    | cons y ys =>
      simp at e
      have ⟨h1, h2⟩ := fwd_cons.mp h
      refine ⟨?_, ?_⟩
      · simp only [pairCo, h1, Option.map, e.1, projPair]
      · simp [pairCo]
        exact ⟨ys, h2, e.2⟩
  · exact ⟨ys, h, rfl⟩

theorem enumerate_fwd (c : Co) (s : c.σ) (i : Nat) (ys : List Val) (h : Fwd c s ys) :
    Fwd (enumerateCo c) (s, i) (enumFrom i ys) := by
  apply fwd_coind (enumerateCo c) (fun (st : c.σ × Nat) xs => ∃ ys, Fwd c st.1 ys ∧ xs = enumFrom st.2 ys)
  · intro (st : c.σ × Nat) ⟨ys, h, e⟩
    cases ys with
    | cons y ys => simp [enumFrom] at e
    | nil =>
      have ⟨h1, h2⟩ := fwd_nil.mp h
      refine ⟨by simp [enumerateCo, h1], ?_⟩
      simp [enumerateCo]
      exact ⟨[], h2, rfl⟩
  · intro (st : c.σ × Nat) x xs ⟨ys, h, e⟩
    cases ys with
    | nil => simp [enumFrom] at e
    | cons y ys =>
      simp [enumFrom] at e
      have ⟨h1, h2⟩ := fwd_cons.mp h
      refine ⟨by simp [enumerateCo, h1, e.1], ?_⟩
      simp [enumerateCo]
      exact ⟨ys, h2, e.2⟩
  · exact ⟨ys, h, rfl⟩

theorem take_fwd (c : Co) (s : c.σ) (k : Nat) (ys : List Val) (h : Fwd c s ys) :
    Fwd (takeCo c) (s, k) (ys.take k) := by
  apply fwd_coind (takeCo c) (fun (st : c.σ × Nat) xs => ∃ ys, Fwd c st.1 ys ∧ xs = ys.take st.2)
  · intro (st : c.σ × Nat) ⟨ys, h, e⟩
    by_cases hk : st.2 > 0
    · have hys : ys = [] := by
        cases ys with
        | nil => rfl
        | cons y ys =>
          obtain ⟨k', hk'⟩ : ∃ k', st.2 = k' + 1 := ⟨st.2 - 1, by omega⟩
          rw [hk'] at e
          simp at e
      subst hys
      have ⟨h1, h2⟩ := fwd_nil.mp h
      refine ⟨by simp [takeCo, hk, h1], ?_⟩
      simp [takeCo, hk]
      exact ⟨[], h2, by simp⟩
    · refine ⟨by simp [takeCo, hk], ?_⟩
      simp [takeCo, hk]
      exact ⟨ys, h, Or.inl (by omega)⟩
  · intro (st : c.σ × Nat) x xs ⟨ys, h, e⟩
    obtain ⟨s, k⟩ := st
    cases k with
    | zero => simp at e
    | succ k =>
      cases ys with
      | nil => simp at e
      | cons y ys =>
        simp at e
        have ⟨h1, h2⟩ := fwd_cons.mp h
        refine ⟨by simp [takeCo, h1, e.1], ?_⟩
        simp [takeCo]
        exact ⟨ys, h2, e.2⟩
  · exact ⟨ys, h, rfl⟩

theorem takeWhile_fwd (p : Pred) (c : Co) (s : c.σ) (ys : List Val) (h : Fwd c s ys) :
    Fwd (takeWhileCo p c) (s, false) (takeWhileL p.app ys) := by
  apply fwd_coind (takeWhileCo p c)
    (fun (st : c.σ × Bool) xs => (st.2 = true ∧ xs = []) ∨
      (st.2 = false ∧ ∃ ys, Fwd c st.1 ys ∧ xs = takeWhileL p.app ys))
  · intro (st : c.σ × Bool) hR
    rcases hR with ⟨hf, _⟩ | ⟨hf, ys, h, e⟩
    · refine ⟨by simp [takeWhileCo, hf], ?_⟩
      simp [takeWhileCo, hf]
    · cases ys with
      | nil =>
        have ⟨h1, h2⟩ := fwd_nil.mp h
        refine ⟨by simp [takeWhileCo, hf, h1], ?_⟩
        simp [takeWhileCo, hf, h1]
        exact ⟨[], h2, rfl⟩
      | cons y ys =>
        have ⟨h1, h2⟩ := fwd_cons.mp h
        by_cases hp : p.app y = true
        · simp [takeWhileL, hp] at e
        · refine ⟨by simp [takeWhileCo, hf, h1, hp], ?_⟩
          simp [takeWhileCo, hf, h1, hp]
  · intro (st : c.σ × Bool) x xs hR
    rcases hR with ⟨_, e⟩ | ⟨hf, ys, h, e⟩
    · simp at e
    · cases ys with
      | nil => simp [takeWhileL] at e
      | cons y ys =>
        have ⟨h1, h2⟩ := fwd_cons.mp h
        by_cases hp : p.app y = true
        · simp [takeWhileL, hp] at e
          refine ⟨by simp [takeWhileCo, hf, h1, hp, e.1], ?_⟩
          simp [takeWhileCo, hf, h1, hp]
          exact ⟨ys, h2, e.2⟩
        · simp [takeWhileL, hp] at e
  · exact Or.inr ⟨rfl, ys, h, rfl⟩

theorem chain_fwd (a b : Co) (sa : a.σ) (sb : b.σ) (as bs : List Val)
    (ha : Fwd a sa as) (hb : Fwd b sb bs) : Fwd (chainCo a b) (some sa, sb) (as ++ bs) := by
  apply fwd_coind (chainCo a b)
    (fun (st : Option a.σ × b.σ) xs =>
      (∃ sa as bs, st.1 = some sa ∧ Fwd a sa as ∧ Fwd b st.2 bs ∧ xs = as ++ bs) ∨
      (st.1 = none ∧ Fwd b st.2 xs))
  · intro (st : Option a.σ × b.σ) hR
    rcases hR with ⟨sa, as, bs, hs, ha, hb, e⟩ | ⟨hs, hb⟩
    · have : as = [] ∧ bs = [] := by
        cases as with
        | cons _ _ => simp at e
        | nil =>
          cases bs with
          | cons _ _ => simp at e
          | nil => exact ⟨rfl, rfl⟩
      obtain ⟨rfl, rfl⟩ := this
      have ⟨a1, _⟩ := fwd_nil.mp ha
      have ⟨b1, b2⟩ := fwd_nil.mp hb
      refine ⟨by simp [chainCo, hs, a1, b1], ?_⟩
      simp [chainCo, hs, a1]
      exact b2
    · have ⟨b1, b2⟩ := fwd_nil.mp hb
      refine ⟨by simp [chainCo, hs, b1], ?_⟩
      simp [chainCo, hs]
      exact b2
  · intro (st : Option a.σ × b.σ) x xs hR
    rcases hR with ⟨sa, as, bs, hs, ha, hb, e⟩ | ⟨hs, hb⟩
    · cases as with
      | nil =>
        simp at e
        subst e
        have ⟨a1, _⟩ := fwd_nil.mp ha
        have ⟨b1, b2⟩ := fwd_cons.mp hb
        refine ⟨by simp [chainCo, hs, a1, b1], ?_⟩
        simp [chainCo, hs, a1]
        exact b2
      | cons y as =>
        simp at e
        have ⟨a1, a2⟩ := fwd_cons.mp ha
        refine ⟨by simp [chainCo, hs, a1, e.1], ?_⟩
        simp [chainCo, hs, a1]
        exact ⟨as, a2, bs, hb, e.2⟩
    · have ⟨b1, b2⟩ := fwd_cons.mp hb
      refine ⟨by simp [chainCo, hs, b1], ?_⟩
      simp [chainCo, hs]
      exact b2
  · exact Or.inl ⟨sa, as, bs, rfl, ha, hb, rfl⟩

theorem zipL_nil_right (xs : List Val) : zipL xs [] = [] := by
  cases xs <;> rfl

theorem zip_fwd (a b : Co) (sa : a.σ) (sb : b.σ) (as bs : List Val)
    (ha : Fwd a sa as) (hb : Fwd b sb bs) : Fwd (zipCo a b) (sa, sb) (zipL as bs) := by
  apply fwd_coind (zipCo a b)
    (fun (st : a.σ × b.σ) xs => ∃ as bs, Fwd a st.1 as ∧ Fwd b st.2 bs ∧ xs = zipL as bs)
  · intro (st : a.σ × b.σ) ⟨as, bs, ha, hb, e⟩
    cases as with
    | nil =>
      have ⟨a1, a2⟩ := fwd_nil.mp ha
      refine ⟨by simp [zipCo, a1], ?_⟩
      simp [zipCo, a1]
      exact ⟨[], a2, bs, hb, rfl⟩
    | cons x as =>
      cases bs with
      | cons y bs => simp [zipL] at e
      | nil =>
        have ⟨a1, a2⟩ := fwd_cons.mp ha
        have ⟨b1, b2⟩ := fwd_nil.mp hb
        refine ⟨by simp [zipCo, a1, b1], ?_⟩
        simp [zipCo, a1, b1]
        exact ⟨as, a2, [], b2, zipL_nil_right as⟩
  · intro (st : a.σ × b.σ) x xs ⟨as, bs, ha, hb, e⟩
    cases as with
    | nil => simp [zipL] at e
    | cons y as =>
      cases bs with
      | nil => simp [zipL] at e
      | cons z bs =>
        simp [zipL] at e
        have ⟨a1, a2⟩ := fwd_cons.mp ha
        have ⟨b1, b2⟩ := fwd_cons.mp hb
        refine ⟨by simp [zipCo, a1, b1, e.1], ?_⟩
        simp [zipCo, a1, b1]
        exact ⟨as, a2, bs, b2, e.2⟩
  · exact ⟨as, bs, ha, hb, rfl⟩

theorem peekable_fwd (c : Co) (s : c.σ) (ys : List Val) (h : Fwd c s ys) :
    Fwd (peekableCo c) ⟨s, none, none⟩ ys := by
  apply fwd_coind (peekableCo c)
    (fun (st : Peek c.σ) xs => st.front = none ∧ st.rear = none ∧ Fwd c st.inner xs)
  · intro (st : Peek c.σ) ⟨hf, hr, h⟩
    have ⟨h1, h2⟩ := fwd_nil.mp h
    refine ⟨by simp [peekableCo, hf, h1, hr], ?_⟩
    simp [peekableCo, hf, h1]
    exact h2
  · intro (st : Peek c.σ) x xs ⟨hf, hr, h⟩
    have ⟨h1, h2⟩ := fwd_cons.mp h
    refine ⟨by simp [peekableCo, hf, h1], ?_⟩
    simp [peekableCo, hf, h1]
    exact ⟨hr, h2⟩
  · exact ⟨rfl, rfl, h⟩


/-! ### adaptors with internal loops -/

theorem drop_tail_eq (ys : List Val) (k : Nat) : ys.tail.drop k = ys.drop (k + 1) := by
  cases ys <;> simp

theorem pullN_fwd (c : Co) : ∀ (k : Nat) (s : c.σ) (ys : List Val),
    Fwd c s ys → Fwd c (pullN c k s).1 (ys.drop k) := by
  intro k
  induction k with
  | zero => intro s ys h; simpa [pullN] using h
  | succ k ih =>
    intro s ys h
    have := ih (c.next s).st ys.tail (fwd_tail h)
    rw [drop_tail_eq] at this
    simpa [pullN] using this

theorem advance_fwd (c : Co) : ∀ (k : Nat) (s : c.σ) (ys : List Val), Fwd c s ys →
    (advance c k s).1 = decide (k ≤ ys.length) ∧ Fwd c (advance c k s).2.1 (ys.drop k) := by
  intro k
  induction k with
  | zero => intro s ys h; simpa [advance] using h
  | succ k ih =>
    intro s ys h
    cases ys with
    | nil =>
      have ⟨h1, h2⟩ := fwd_nil.mp h
      simp [advance, h1]
      exact h2
    | cons y ys =>
      have ⟨h1, h2⟩ := fwd_cons.mp h
      have ⟨i1, i2⟩ := ih (c.next s).st ys h2
      simp [advance, h1]
      exact ⟨by simpa using i1, i2⟩

theorem nth_fwd (c : Co) (k : Nat) (s : c.σ) (ys : List Val) (h : Fwd c s ys) :
    (nth c k s).out = (ys.drop k).head? ∧ Fwd c (nth c k s).st (ys.drop (k + 1)) := by
  have ⟨a1, a2⟩ := advance_fwd c k s ys h
  unfold nth
  generalize advance c k s = r at a1 a2
  obtain ⟨ok, s', e⟩ := r
  by_cases hk : k ≤ ys.length
  · have hok : ok = true := by simpa [hk] using a1
    subst hok
    refine ⟨fwd_head a2, ?_⟩
    have := fwd_tail a2
    rw [List.tail_drop] at this
    exact this
  · have hok : ok = false := by simpa [hk] using a1
    subst hok
    have hd : ys.drop k = [] := by simp; omega
    have hd' : ys.drop (k + 1) = [] := by simp; omega
    rw [hd'] 
    rw [hd] at a2
    refine ⟨by rw [hd]; rfl, a2⟩

theorem skip_fwd (c : Co) (s : c.σ) (k : Nat) (ys : List Val) (h : Fwd c s ys) :
    Fwd (skipCo c) (s, k) (ys.drop k) := by
  have step : ∀ (st : c.σ × Nat) ys, Fwd c st.1 ys →
      ((skipCo c).next st).out = (ys.drop st.2).head? ∧ ((skipCo c).next st).st.2 = 0 ∧
      Fwd c ((skipCo c).next st).st.1 (ys.drop (st.2 + 1)) := by
    intro st ys h
    by_cases hk : st.2 > 0
    · have ⟨n1, n2⟩ := nth_fwd c st.2 st.1 ys h
      have e1 : (skipCo c).next st =
          ⟨(nth c st.2 st.1).out, ((nth c st.2 st.1).st, 0), (nth c st.2 st.1).ev⟩ := by
        simp [skipCo, hk]
      rw [e1]
      exact ⟨n1, rfl, n2⟩
    · have hz : st.2 = 0 := by omega
      have e1 : (skipCo c).next st = ⟨(c.next st.1).out, ((c.next st.1).st, 0), (c.next st.1).ev⟩ := by
        simp [skipCo, hz]
      rw [e1, hz]
      refine ⟨fwd_head h, rfl, ?_⟩
      have := fwd_tail h
      simpa using this
  apply fwd_coind (skipCo c) (fun (st : c.σ × Nat) xs => ∃ ys, Fwd c st.1 ys ∧ xs = ys.drop st.2)
  · intro (st : c.σ × Nat) ⟨ys, h, e⟩
    have ⟨s1, s2, s3⟩ := step st ys h
    refine ⟨by rw [s1, ← e]; rfl, ys.drop (st.2 + 1), s3, ?_⟩
    rw [s2]
    have : (ys.drop st.2).tail = [] := by rw [← e]; rfl
    simpa [List.tail_drop] using this.symm
  · intro (st : c.σ × Nat) x xs ⟨ys, h, e⟩
    have ⟨s1, s2, s3⟩ := step st ys h
    refine ⟨by rw [s1, ← e]; rfl, ys.drop (st.2 + 1), s3, ?_⟩
    rw [s2]
    have : (ys.drop st.2).tail = xs := by rw [← e]; rfl
    simpa [List.tail_drop] using this.symm
  · exact ⟨ys, h, rfl⟩

theorem everyNthAux_drop (n : Nat) : ∀ (k : Nat) (ys : List Val),
    everyNthAux n k ys = everyNthAux n 0 (ys.drop k) := by
  intro k
  induction k with
  | zero => intro ys; simp
  | succ k ih =>
    intro ys
    cases ys with
    | nil => simp [everyNthAux]
    | cons y ys => simpa [everyNthAux] using ih ys

theorem everyNth_cons (n : Nat) (y : Val) (ys : List Val) :
    everyNth n (y :: ys) = y :: everyNth n (ys.drop (n - 1)) := by
  simp [everyNth, everyNthAux]
  exact everyNthAux_drop n (n - 1) ys

theorem everyNth_nil (n : Nat) : everyNth n [] = [] := by simp [everyNth, everyNthAux]

theorem everyNth_head (n : Nat) (zs : List Val) : (everyNth n zs).head? = zs.head? := by
  cases zs with
  | nil => rw [everyNth_nil]
  | cons z zs => rw [everyNth_cons]; rfl

/-- one call of the lazy `Step` from `pending = k` is `Iterator::nth(k)` on the input: the `k` pending
skips (stopping at the first `None`) and then the pull of the value itself — nothing after it -/
theorem step_next_eq (n : Nat) (c : Co) (st : c.σ × Nat) :
    ((stepCo n c).next st).out = (nth c st.2 st.1).out ∧
    ((stepCo n c).next st).st.1 = (nth c st.2 st.1).st ∧
    ((stepCo n c).next st).ev = (nth c st.2 st.1).ev ∧
    ((stepCo n c).next st).st.2 = (if (nth c st.2 st.1).out.isSome then n - 1 else 0) := by
  simp only [stepCo, nth]
  generalize advance c st.2 st.1 = r
  obtain ⟨ok, s', e⟩ := r
  cases ok with
  | true => exact ⟨rfl, rfl, rfl, rfl⟩
  | false => exact ⟨rfl, rfl, rfl, rfl⟩

theorem step_fwd_gen (n : Nat) (c : Co) (s : c.σ) (k : Nat) (ys : List Val) (h : Fwd c s ys) :
    Fwd (stepCo n c) (s, k) (everyNth n (ys.drop k)) := by
  apply fwd_coind (stepCo n c)
    (fun (st : c.σ × Nat) xs => ∃ ys, Fwd c st.1 ys ∧ xs = everyNth n (ys.drop st.2))
  · intro (st : c.σ × Nat) ⟨ys, h, e⟩
    have ⟨e1, e2, _, e4⟩ := step_next_eq n c st
    have ⟨n1, n2⟩ := nth_fwd c st.2 st.1 ys h
    have hz : ys.drop st.2 = [] := by
      cases hd : ys.drop st.2 with
      | nil => rfl
      | cons z zs => rw [hd, everyNth_cons] at e; simp at e
    have ho : (nth c st.2 st.1).out = none := by rw [n1, hz]; rfl
    refine ⟨by rw [e1, ho], ys.drop (st.2 + 1), by rw [e2]; exact n2, ?_⟩
    rw [e4, ho]
    have : ys.drop (st.2 + 1) = [] := by
      have := congrArg List.tail hz
      simpa [List.tail_drop] using this
    simp [this, everyNth_nil]
  · intro (st : c.σ × Nat) x xs ⟨ys, h, e⟩
    have ⟨e1, e2, _, e4⟩ := step_next_eq n c st
    have ⟨n1, n2⟩ := nth_fwd c st.2 st.1 ys h
    cases hd : ys.drop st.2 with
    | nil => rw [hd, everyNth_nil] at e; simp at e
    | cons z zs =>
      rw [hd, everyNth_cons] at e
      have ⟨ex, exs⟩ := List.cons.inj e
      have ho : (nth c st.2 st.1).out = some z := by rw [n1, hd]; rfl
      have hzs : ys.drop (st.2 + 1) = zs := by
        have := congrArg List.tail hd
        simpa [List.tail_drop] using this
      refine ⟨by rw [e1, ho, ex], ys.drop (st.2 + 1), by rw [e2]; exact n2, ?_⟩
      rw [e4, ho, exs]
      simp only [Option.isSome_some, if_true]
      rw [List.drop_drop, ← hzs, List.drop_drop]
  · exact ⟨ys, h, rfl⟩

theorem step_fwd (n : Nat) (c : Co) (s : c.σ) (ys : List Val) (h : Fwd c s ys) :
    Fwd (stepCo n c) (s, 0) (everyNth n ys) := by
  have := step_fwd_gen n c s 0 ys h
  simpa using this

theorem keepLoop_fwd (p : Pred) (c : Co) : ∀ (fuel : Nat) (s : c.σ) (ys : List Val),
    Fwd c s ys → ys.length < fuel →
    (keepLoop p c fuel s).out = (ys.filter p.app).head? ∧
    ∃ ys', Fwd c (keepLoop p c fuel s).st ys' ∧ (ys.filter p.app).tail = ys'.filter p.app ∧
      ys'.length ≤ ys.length := by
  intro fuel
  induction fuel with
  | zero => intro s ys _ hl; omega
  | succ fuel ih =>
    intro s ys h hl
    cases ys with
    | nil =>
      have ⟨h1, h2⟩ := fwd_nil.mp h
      simp [keepLoop, h1]
      exact h2
    | cons y ys =>
      have ⟨h1, h2⟩ := fwd_cons.mp h
      by_cases hp : p.app y = true
      · simp [keepLoop, h1, hp]
        exact ⟨ys, h2, rfl, by omega⟩
      · have ⟨i1, ys', i2, i3, i4⟩ := ih (c.next s).st ys h2 (by simp at hl; omega)
        simp [keepLoop, h1, hp]
        exact ⟨by simpa using i1, ys', i2, by simpa [hp] using i3, by omega⟩

theorem keep_fwd (fuel : Nat) (p : Pred) (c : Co) (s : c.σ) (ys : List Val) (h : Fwd c s ys)
    (hl : ys.length < fuel) : Fwd (keepCo fuel p c) s (ys.filter p.app) := by
  apply fwd_coind (keepCo fuel p c)
    (fun (s : c.σ) xs => ∃ ys, Fwd c s ys ∧ ys.length < fuel ∧ xs = ys.filter p.app)
  · intro (s : c.σ) ⟨ys, h, hl, e⟩
    have ⟨k1, ys', k2, k3, k4⟩ := keepLoop_fwd p c fuel s ys h hl
    refine ⟨by show (keepLoop p c fuel s).out = none; rw [k1, ← e]; rfl, ys', k2, by omega, ?_⟩
    rw [← k3, ← e]; rfl
  · intro (s : c.σ) x xs ⟨ys, h, hl, e⟩
    have ⟨k1, ys', k2, k3, k4⟩ := keepLoop_fwd p c fuel s ys h hl
    refine ⟨by show (keepLoop p c fuel s).out = some x; rw [k1, ← e]; rfl, ys', k2, by omega, ?_⟩
    rw [← k3, ← e]; rfl
  · exact ⟨ys, h, hl, rfl⟩

/-- `sep, y₀, sep, y₁, …` -/
def sepAll (sep : Val) : List Val → List Val
  | [] => []
  | y :: ys => sep :: y :: sepAll sep ys

theorem intersperseL_cons (sep y : Val) (ys : List Val) :
    intersperseL sep (y :: ys) = y :: sepAll sep ys := by
  induction ys generalizing y with
  | nil => rfl
  | cons z zs ih => simp [intersperseL, sepAll, ih]

theorem intersperse_fwd (sep : Val) (lg : Bool) (c : Co) (s : c.σ) (ys : List Val) (h : Fwd c s ys) :
    Fwd (intersperseCo sep lg c) ⟨s, none, false⟩ (intersperseL sep ys) := by
  apply fwd_coind (intersperseCo sep lg c)
    (fun (st : Inter c.σ) xs => ∃ ys, Fwd c st.inner ys ∧
      ((st.peeked = none ∧ st.nextIsSep = false ∧ xs = intersperseL sep ys) ∨
       (st.peeked = none ∧ st.nextIsSep = true ∧ xs = sepAll sep ys) ∨
       (∃ v, st.peeked = some v ∧ st.nextIsSep = false ∧ xs = v :: sepAll sep ys)))
  · intro (st : Inter c.σ) ⟨ys, h, hR⟩
    rcases hR with ⟨hp, hn, e⟩ | ⟨hp, hn, e⟩ | ⟨v, hp, hn, e⟩
    · cases ys with
      | cons y ys => rw [intersperseL_cons] at e; simp at e
      | nil =>
        have ⟨h1, h2⟩ := fwd_nil.mp h
        refine ⟨by simp [intersperseCo, hp, h1], [], ?_, Or.inl ⟨?_, ?_, rfl⟩⟩ <;>
          simp [intersperseCo, hp, h1, hn]
        exact h2
    · cases ys with
      | cons y ys => simp [sepAll] at e
      | nil =>
        have ⟨h1, h2⟩ := fwd_nil.mp h
        refine ⟨by simp [intersperseCo, hp, h1], [], ?_, Or.inr (Or.inl ⟨?_, ?_, rfl⟩)⟩ <;>
          simp [intersperseCo, hp, h1, hn]
        exact h2
    · simp at e
  · intro (st : Inter c.σ) x xs ⟨ys, h, hR⟩
    rcases hR with ⟨hp, hn, e⟩ | ⟨hp, hn, e⟩ | ⟨v, hp, hn, e⟩
    · cases ys with
      | nil => simp [intersperseL] at e
      | cons y ys =>
        rw [intersperseL_cons] at e
        simp at e
        have ⟨h1, h2⟩ := fwd_cons.mp h
        refine ⟨by simp [intersperseCo, hp, h1, hn, e.1], ys, ?_, Or.inr (Or.inl ⟨?_, ?_, e.2⟩)⟩ <;>
          simp [intersperseCo, hp, h1, hn]
        exact h2
    · cases ys with
      | nil => simp [sepAll] at e
      | cons y ys =>
        simp [sepAll] at e
        have ⟨h1, h2⟩ := fwd_cons.mp h
        refine ⟨by simp [intersperseCo, hp, h1, hn, e.1], ys, ?_, Or.inr (Or.inr ⟨y, ?_, ?_, e.2⟩)⟩ <;>
          simp [intersperseCo, hp, h1, hn]
        exact h2
    · simp at e
      refine ⟨by simp [intersperseCo, hp, hn, e.1], ys, ?_, Or.inr (Or.inl ⟨?_, ?_, e.2⟩)⟩ <;>
        simp [intersperseCo, hp, hn]
      exact h
  · exact ⟨ys, h, Or.inl ⟨rfl, rfl, rfl⟩⟩

theorem takeUpTo_fwd (c : Co) : ∀ (n : Nat) (s : c.σ) (ys : List Val), Fwd c s ys →
    (takeUpTo c n s).1 = ys.take n ∧ Fwd c (takeUpTo c n s).2.1 (ys.drop n) := by
  intro n
  induction n with
  | zero => intro s ys h; simpa [takeUpTo] using h
  | succ n ih =>
    intro s ys h
    cases ys with
    | nil =>
      have ⟨h1, h2⟩ := fwd_nil.mp h
      simp [takeUpTo, h1]
      exact h2
    | cons y ys =>
      have ⟨h1, h2⟩ := fwd_cons.mp h
      have ⟨i1, i2⟩ := ih (c.next s).st ys h2
      simp [takeUpTo, h1]
      exact ⟨i1, i2⟩

theorem chunks_fwd (n : Nat) (hn : n ≥ 1) (c : Co) (s : c.σ) (ys : List Val) (h : Fwd c s ys) :
    Fwd (chunksCo n c) s (chunksOf n ys.length ys) := by
  apply fwd_coind (chunksCo n c)
    (fun (s : c.σ) xs => ∃ ys f, Fwd c s ys ∧ ys.length ≤ f ∧ xs = chunksOf n f ys)
  · intro (s : c.σ) ⟨ys, f, h, hl, e⟩
    have hys : ys = [] := by
      cases ys with
      | nil => rfl
      | cons y ys =>
        cases f with
        | zero => simp at hl
        | succ f => simp [chunksOf] at e
    subst hys
    have ⟨t1, t2⟩ := takeUpTo_fwd c n s [] h
    simp at t1 t2
    refine ⟨by simp [chunksCo, t1], [], 0, ?_, by simp, by simp [chunksOf]⟩
    simpa [chunksCo] using t2
  · intro (s : c.σ) x xs ⟨ys, f, h, hl, e⟩
    cases ys with
    | nil => cases f <;> simp [chunksOf] at e
    | cons y ys =>
      cases f with
      | zero => simp at hl
      | succ f =>
        simp [chunksOf] at e
        have ⟨t1, t2⟩ := takeUpTo_fwd c n s (y :: ys) h
        obtain ⟨m, rfl⟩ : ∃ m, n = m + 1 := ⟨n - 1, by omega⟩
        refine ⟨?_, (y :: ys).drop (m + 1), f, ?_, ?_, e.2⟩
        · simp [chunksCo, t1, e.1]
        · simpa [chunksCo] using t2
        · simp at hl ⊢; omega
  · exact ⟨ys, ys.length, h, Nat.le_refl _, rfl⟩


theorem fillCache_fwd (c : Co) : ∀ (k : Nat) (s : c.σ) (ys cache : List Val), Fwd c s ys →
    (fillCache c k s cache).1 = cache ++ ys.take k ∧ Fwd c (fillCache c k s cache).2.1 (ys.drop k) := by
  intro k
  induction k with
  | zero => intro s ys cache h; simpa [fillCache] using h
  | succ k ih =>
    intro s ys cache h
    cases ys with
    | nil =>
      have ⟨h1, h2⟩ := fwd_nil.mp h
      simp [fillCache, h1]
      exact h2
    | cons y ys =>
      have ⟨h1, h2⟩ := fwd_cons.mp h
      have ⟨i1, i2⟩ := ih (c.next s).st ys (cache ++ [y]) h2
      simp [fillCache, h1]
      exact ⟨by simpa using i1, i2⟩

theorem windowsOf_short (n : Nat) (zs : List Val) (h : zs.length < n) : windowsOf n zs = [] := by
  cases zs with
  | nil => rfl
  | cons z zs =>
    have : ¬ (zs.length + 1 ≥ n) := by simp at h; omega
    simp [windowsOf, this]

theorem windowsOf_long (n : Nat) (zs : List Val) (hn : n ≥ 1) (h : zs.length ≥ n) :
    windowsOf n zs = Val.tuple (zs.take n) :: windowsOf n (zs.drop 1) := by
  cases zs with
  | nil => simp at h; omega
  | cons z zs =>
    have : zs.length + 1 ≥ n := by simpa using h
    simp [windowsOf, this]

theorem windows_lists (n : Nat) (hn : n ≥ 1) (c1 ys : List Val) (hc : c1.length ≤ n) :
    c1 ++ ys.take (n - c1.length) = (c1 ++ ys).take n ∧
    (c1 ++ ys.take (n - c1.length)).drop 1 ++ ys.drop (n - c1.length) = (c1 ++ ys).drop 1 := by
  constructor
  · rw [List.take_append, List.take_of_length_le hc]
  · cases c1 with
    | cons a t => simp
    | nil =>
      obtain ⟨m, rfl⟩ : ∃ m, n = m + 1 := ⟨n - 1, by omega⟩
      cases ys with
      | nil => simp
      | cons y t => simp

theorem windows_fwd (n : Nat) (hn : n ≥ 1) (c : Co) (s : c.σ) (ys : List Val) (h : Fwd c s ys) :
    Fwd (windowsCo n c) (s, []) (windowsOf n ys) := by
  have step : ∀ (st : c.σ × List Val) ys, Fwd c st.1 ys → st.2.length ≤ n →
      ((windowsCo n c).next st).out =
        (if (st.2.drop 1 ++ ys).length ≥ n then some (Val.tuple ((st.2.drop 1 ++ ys).take n)) else none) ∧
      ∃ ys', Fwd c ((windowsCo n c).next st).st.1 ys' ∧ ((windowsCo n c).next st).st.2.length ≤ n ∧
        ((windowsCo n c).next st).st.2.drop 1 ++ ys' = (st.2.drop 1 ++ ys).drop 1 := by
    intro st ys h hc
    have hc1 : (st.2.drop 1).length ≤ n := by simp; omega
    have ⟨f1, f2⟩ := fillCache_fwd c (n - (st.2.drop 1).length) st.1 ys (st.2.drop 1) h
    have ⟨l1, l2⟩ := windows_lists n hn (st.2.drop 1) ys hc1
    have e1 : (windowsCo n c).next st =
        ⟨if (fillCache c (n - (st.2.drop 1).length) st.1 (st.2.drop 1)).1.length = n
           then some (Val.tuple (fillCache c (n - (st.2.drop 1).length) st.1 (st.2.drop 1)).1) else none,
         ((fillCache c (n - (st.2.drop 1).length) st.1 (st.2.drop 1)).2.1,
          (fillCache c (n - (st.2.drop 1).length) st.1 (st.2.drop 1)).1),
         (fillCache c (n - (st.2.drop 1).length) st.1 (st.2.drop 1)).2.2⟩ := by
      simp [windowsCo]
    rw [e1, f1, l1]
    refine ⟨?_, ys.drop (n - (st.2.drop 1).length), f2, ?_, ?_⟩
    · by_cases hl : (st.2.drop 1 ++ ys).length ≥ n
      · have : ((st.2.drop 1 ++ ys).take n).length = n := by rw [List.length_take]; omega
        simp only [this, hl, if_true]
      · have : ((st.2.drop 1 ++ ys).take n).length ≠ n := by rw [List.length_take]; omega
        simp only [this, hl, if_false]
    · show ((st.2.drop 1 ++ ys).take n).length ≤ n
      rw [List.length_take]; omega
    · show ((st.2.drop 1 ++ ys).take n).drop 1 ++ _ = _
      rw [← l1]; exact l2
  apply fwd_coind (windowsCo n c)
    (fun (st : c.σ × List Val) xs => ∃ ys, Fwd c st.1 ys ∧ st.2.length ≤ n ∧
      xs = windowsOf n (st.2.drop 1 ++ ys))
  · intro (st : c.σ × List Val) ⟨ys, h, hc, e⟩
    have ⟨s1, ys', s2, s3, s4⟩ := step st ys h hc
    have hshort : (st.2.drop 1 ++ ys).length < n := by
      by_cases hl : (st.2.drop 1 ++ ys).length ≥ n
      · rw [windowsOf_long n _ hn hl] at e; simp at e
      · omega
    refine ⟨?_, ys', s2, s3, ?_⟩
    · rw [s1]; have : ¬ (st.2.drop 1 ++ ys).length ≥ n := by omega
      simp only [this, if_false]
    · rw [s4, windowsOf_short]; rw [List.length_drop]; omega
  · intro (st : c.σ × List Val) x xs ⟨ys, h, hc, e⟩
    have ⟨s1, ys', s2, s3, s4⟩ := step st ys h hc
    have hl : (st.2.drop 1 ++ ys).length ≥ n := by
      by_cases hl : (st.2.drop 1 ++ ys).length ≥ n
      · exact hl
      · rw [windowsOf_short n _ (by omega)] at e; simp at e
    rw [windowsOf_long n _ hn hl] at e
    have ⟨e1, e2⟩ := List.cons.inj e
    refine ⟨?_, ys', s2, s3, ?_⟩
    · rw [s1]; simp only [hl, if_true]; rw [e1]
    · rw [s4]; exact e2
  · exact ⟨ys, h, by simp, by simp⟩

theorem flattenLoop_fwd (c : Co) : ∀ (fuel : Nat) (s : c.σ) (ys : List Val) (nested : Option (List Val)),
    Fwd c s ys → ys.length < fuel →
    (flattenLoop c fuel s nested).out = (nested.getD [] ++ flattenL ys).head? ∧
    ∃ ys', Fwd c (flattenLoop c fuel s nested).st.1 ys' ∧ ys'.length ≤ ys.length ∧
      (nested.getD [] ++ flattenL ys).tail = (flattenLoop c fuel s nested).st.2.getD [] ++ flattenL ys' := by
  intro fuel
  induction fuel with
  | zero => intro s ys nested _ hl; omega
  | succ fuel ih =>
    intro s ys nested h hl
    have rest : (nested = none ∨ nested = some []) →
        (flattenLoop c (fuel + 1) s nested).out = (nested.getD [] ++ flattenL ys).head? ∧
        ∃ ys', Fwd c (flattenLoop c (fuel + 1) s nested).st.1 ys' ∧ ys'.length ≤ ys.length ∧
          (nested.getD [] ++ flattenL ys).tail =
            (flattenLoop c (fuel + 1) s nested).st.2.getD [] ++ flattenL ys' := by
      intro hn
      have hD : nested.getD [] = [] := by rcases hn with rfl | rfl <;> rfl
      cases ys with
      | nil =>
        have ⟨h1, h2⟩ := fwd_nil.mp h
        rcases hn with rfl | rfl <;> simp [flattenLoop, h1, flattenL] <;> exact ⟨[], h2, rfl, rfl⟩
      | cons y ys =>
        have ⟨h1, h2⟩ := fwd_cons.mp h
        cases he : elemsOf y with
        | some es =>
          have ⟨i1, ys', i2, i3, i4⟩ := ih (c.next s).st ys (some es) h2 (by simp at hl; omega)
          have e1 : flattenLoop c (fuel + 1) s nested =
              ⟨(flattenLoop c fuel (c.next s).st (some es)).out, (flattenLoop c fuel (c.next s).st (some es)).st,
               (c.next s).ev ++ (flattenLoop c fuel (c.next s).st (some es)).ev⟩ := by
            rcases hn with rfl | rfl <;> simp [flattenLoop, h1, he]
          rw [e1, hD]
          simp only [flattenL, he, List.nil_append]
          simp only [Option.getD_some] at i1 i4
          exact ⟨i1, ys', i2, by simp; omega, i4⟩
        | none =>
          have e1 : flattenLoop c (fuel + 1) s nested = ⟨some y, ((c.next s).st, nested), (c.next s).ev⟩ := by
            rcases hn with rfl | rfl <;> simp [flattenLoop, h1, he]
          rw [e1, hD]
          simp only [flattenL, he, List.nil_append]
          exact ⟨rfl, ys, h2, by simp, by simp [hD]⟩
    match nested with
    | none => exact rest (Or.inl rfl)
    | some [] => exact rest (Or.inr rfl)
    | some (x :: more) =>
      simp [flattenLoop]
      exact ⟨ys, h, Nat.le_refl _, rfl⟩

theorem flatten_fwd (fuel : Nat) (c : Co) (s : c.σ) (ys : List Val) (h : Fwd c s ys)
    (hl : ys.length < fuel) : Fwd (flattenCo fuel c) (s, none) (flattenL ys) := by
  apply fwd_coind (flattenCo fuel c)
    (fun (st : c.σ × Option (List Val)) xs => ∃ ys, Fwd c st.1 ys ∧ ys.length < fuel ∧
      xs = st.2.getD [] ++ flattenL ys)
  · intro (st : c.σ × Option (List Val)) ⟨ys, h, hl, e⟩
    have ⟨k1, ys', k2, k3, k4⟩ := flattenLoop_fwd c fuel st.1 ys st.2 h hl
    refine ⟨by show (flattenLoop c fuel st.1 st.2).out = none; rw [k1, ← e]; rfl, ys', k2, by omega, ?_⟩
    show [] = (flattenLoop c fuel st.1 st.2).st.2.getD [] ++ flattenL ys'
    rw [← k4, ← e]; rfl
  · intro (st : c.σ × Option (List Val)) x xs ⟨ys, h, hl, e⟩
    have ⟨k1, ys', k2, k3, k4⟩ := flattenLoop_fwd c fuel st.1 ys st.2 h hl
    refine ⟨by show (flattenLoop c fuel st.1 st.2).out = some x; rw [k1, ← e]; rfl, ys', k2, by omega, ?_⟩
    show xs = (flattenLoop c fuel st.1 st.2).st.2.getD [] ++ flattenL ys'
    rw [← k4, ← e]; rfl
  · exact ⟨ys, h, hl, by simp⟩

end KotoVerif.Iter
