/-
C09 scanner lemmas, part 2: string literals, raw strings, format options, numbers, identifiers,
keywords, symbols.
-/
import KotoVerif.Lemmas.C09Scanners

namespace KotoVerif.Lexer

theorem isQuote_plain {q : Quote} {cp : Nat} (h : isQuote q cp = true) : plain cp = true := by
  unfold isQuote quoteOf at h
  split at h
  · rename_i h1; rw [h1]; decide
  · split at h
    · rename_i h2; rw [h2]; decide
    · simp at h

theorem quoteOf_plain {q : Quote} {cp : Nat} (h : quoteOf cp = some q) : plain cp = true := by
  unfold quoteOf at h
  split at h
  · rename_i h1; rw [h1]; decide
  · split at h
    · rename_i h2; rw [h2]; decide
    · simp at h

/-! ### consume_string_literal -/

/-- common tail of the plain-character cases: `c` plain and `extra` plain characters follow -/
theorem next_plain {c : Ch} {cs : List Ch} {b extra : Nat} {p : Pos}
    (h : 1 + extra ≤ asciiRun (c :: cs)) :
    extra ≤ cs.length ∧ b + (1 + extra) = b + byteLen (c :: cs.take extra) ∧
      p.line = p.line + nlCount (c :: cs.take extra) := by
  obtain ⟨a1, a2, a3⟩ := cons_take_plain h
  exact ⟨a1, by omega, by omega⟩

theorem crnl_next {c : Ch} {cs : List Ch} (hc : c.cp = cpCR) (hn : peekIs cs cpNL = true) :
    1 ≤ cs.length ∧ byteLen (c :: cs.take 1) = 2 ∧ nlCount (c :: cs.take 1) = 1 := by
  cases cs with
  | nil => simp [peekIs] at hn
  | cons d cs' =>
    simp [peekIs] at hn
    have h1 : ¬ c.cp = cpNL := by rw [hc]; decide
    refine ⟨by simp, ?_, ?_⟩
    · simp [Ch.len, hc, hn, utf8Len, cpNL, cpCR]
    · simp [nlCount_cons, h1, hn]

theorem stringLiteralAct_ok (q : Quote) : ActNextOk (stringLiteralAct q) := by
  intro c cs b p extra b' p' h
  unfold stringLiteralAct at h
  by_cases h1 : isQuote q c.cp = true
  · simp [h1] at h
  · simp only [h1] at h
    by_cases h2 : c.cp = cpLBrace
    · simp [h2] at h
    · simp only [h2, if_false] at h
      by_cases h3 : c.cp = cpBackslash
      · simp only [h3, if_true] at h
        have hc : plain c.cp = true := by rw [h3]; decide
        by_cases h4 : peekIs cs cp_u = true
        · simp only [h4, if_true] at h
          have a := peekIs_asciiRun h4 (by decide)
          by_cases h5 : peekIs (cs.drop 1) cpLBrace = true
          · simp only [h5, if_true] at h
            cases h
            have hr : 1 + 2 ≤ asciiRun (c :: cs) := by
              rw [asciiRun_cons_plain hc]
              have b := peekIs_asciiRun h5 (by decide)
              have := asciiRun_drop_add cs 1 1 a b
              omega
            obtain ⟨a1, a2, a3⟩ := cons_take_plain hr
            exact ⟨a1, by omega, by simp [a3]⟩
          · simp only [h5] at h
            cases h
            have hr : 1 + 1 ≤ asciiRun (c :: cs) := by
              rw [asciiRun_cons_plain hc]; omega
            obtain ⟨a1, a2, a3⟩ := cons_take_plain hr
            exact ⟨a1, by omega, by simp [a3]⟩
        · simp only [h4] at h
          by_cases h5 : (peekIs cs cpLBrace || peekIs cs cpBackslash || peekSat cs (isQuote q)) = true
          · simp only [h5, if_true] at h
            cases h
            have a : 1 ≤ asciiRun cs := by
              simp only [Bool.or_eq_true] at h5
              rcases h5 with (h5 | h5) | h5
              · exact peekIs_asciiRun h5 (by decide)
              · exact peekIs_asciiRun h5 (by decide)
              · exact peekSat_asciiRun h5 (fun cp hcp => isQuote_plain hcp)
            have hr : 1 + 1 ≤ asciiRun (c :: cs) := by
              rw [asciiRun_cons_plain hc]; omega
            obtain ⟨a1, a2, a3⟩ := cons_take_plain hr
            exact ⟨a1, by omega, by simp [a3]⟩
          · simp only [h5] at h
            cases h
            have hr : 1 + 0 ≤ asciiRun (c :: cs) := by
              rw [asciiRun_cons_plain hc]; omega
            obtain ⟨a1, a2, a3⟩ := cons_take_plain hr
            simp only [List.take_zero] at a2 a3 ⊢
            exact ⟨a1, by omega, by simp [a3]⟩
      · simp only [h3, if_false] at h
        by_cases h4 : c.cp = cpCR
        · simp only [h4, if_true] at h
          by_cases h5 : peekIs cs cpNL = true
          · simp only [h5, if_true] at h
            cases h
            obtain ⟨a1, a2, a3⟩ := crnl_next h4 h5
            exact ⟨a1, by omega, by simp [a3]⟩
          · simp [h5] at h
        · simp only [h4, if_false] at h
          by_cases h5 : c.cp = cpNL
          · simp only [h5, if_true] at h
            cases h
            refine ⟨by omega, ?_, ?_⟩
            · simp [Ch.len, h5, utf8Len, cpNL]
            · simp [nlCount_cons, h5]
          · simp only [h5, if_false] at h
            cases h
            exact ⟨by omega, by simp, by simp [nlCount_cons, h5]⟩

theorem take_length_append {α : Type} (a b : List α) : (a ++ b).take a.length = a := by
  simp

theorem stringLiteralAct_stop {q : Quote} {c : Ch} {cs : List Ch} {b : Nat} {p : Pos} {r : Token × Move}
    (h : stringLiteralAct q c cs b p = .stop r) :
    r = (.stringLiteral, .adv b p) ∨ r = (.error, .stay) := by
  unfold stringLiteralAct at h
  repeat' split at h
  all_goals first
    | (simp at h; done)
    | (simp at h; subst h; simp)

theorem stringLiteralLoop_consumes (q : Quote) (cs : List Ch) (p : Pos) :
    Consumes true cs p (stringLiteralLoop q cs 0 p).2 := by
  unfold stringLiteralLoop
  apply scan_spec (stringLiteralAct q) _ (fun r => Consumes true cs p r.2) cs 0 p (stringLiteralAct_ok q)
  · intro done c cs' b p' r h0 hb hp hA
    have key : Consumes true cs p (.adv b p') := by
      refine ⟨done.length, by simp [h0], ?_, fun _ => ?_⟩
      · rw [h0, take_length_append]; omega
      · rw [h0, take_length_append]; exact hp
    rcases stringLiteralAct_stop hA with hr | hr
    · subst hr; exact key
    · subst hr; trivial
  · intro b p' _ _
    trivial

/-! ### raw strings -/

theorem matchHashes_le_asciiRun : ∀ (n : Nat) (cs : List Ch), matchHashes n cs ≤ asciiRun cs := by
  intro n
  induction n with
  | zero => intro cs; simp [matchHashes]
  | succ n ih =>
    intro cs
    cases cs with
    | nil => simp [matchHashes]
    | cons c cs =>
      simp only [matchHashes]
      split
      · rename_i h
        have hc : plain c.cp = true := by rw [h]; decide
        rw [asciiRun_cons_plain hc]
        have := ih cs
        omega
      · omega

theorem rawContentsAct_ok (q : Quote) (hashes : Nat) : ActNextOk (rawContentsAct q hashes) := by
  intro c cs b p extra b' p' h
  unfold rawContentsAct at h
  by_cases h1 : isQuote q c.cp = true
  · simp only [h1, if_true] at h
    split at h
    · cases h
    · cases h
      have hc := isQuote_plain h1
      have hr : 1 + matchHashes hashes cs ≤ asciiRun (c :: cs) := by
        rw [asciiRun_cons_plain hc]
        have := matchHashes_le_asciiRun hashes cs
        omega
      obtain ⟨a1, a2, a3⟩ := cons_take_plain hr
      exact ⟨a1, by omega, by simp [a3]⟩
  · simp only [h1] at h
    by_cases h4 : c.cp = cpCR
    · simp only [h4, if_true] at h
      by_cases h5 : peekIs cs cpNL = true
      · simp only [h5, if_true] at h
        cases h
        obtain ⟨a1, a2, a3⟩ := crnl_next h4 h5
        exact ⟨a1, by omega, by simp [a3]⟩
      · simp [h5] at h
    · simp only [h4, if_false] at h
      by_cases h5 : c.cp = cpNL
      · simp only [h5, if_true] at h
        cases h
        refine ⟨by omega, ?_, ?_⟩
        · simp [Ch.len, h5, utf8Len, cpNL]
        · simp [nlCount_cons, h5]
      · simp only [h5, if_false] at h
        cases h
        exact ⟨by omega, by simp, by simp [nlCount_cons, h5]⟩

theorem rawContentsAct_stop {q : Quote} {hashes : Nat} {c : Ch} {cs : List Ch} {b : Nat} {p : Pos} {r : Option (Nat × Pos)}
    (h : rawContentsAct q hashes c cs b p = .stop r) :
    r = none ∨ (r = some (b, p) ∧ isQuote q c.cp = true ∧ matchHashes hashes cs = hashes) := by
  unfold rawContentsAct at h
  by_cases hq : isQuote q c.cp = true
  · simp only [hq, if_true] at h
    by_cases hk : matchHashes hashes cs = hashes
    · simp [hk] at h; subst h; simp_all
    · simp [hk] at h
  · simp only [hq] at h
    repeat' split at h
    all_goals first
      | (simp at h; done)
      | (simp at h; subst h; simp_all)

/-- the raw string contents scanner stops exactly in front of the end delimiter: a quote and
`hashes` '#' characters (all plain) follow the consumed prefix -/
theorem rawContentsLoop_spec (q : Quote) (hashes : Nat) (cs : List Ch) (p : Pos) :
    match rawContentsLoop q hashes cs 0 p with
    | none => True
    | some (bytes, pos) => ∃ k, k ≤ cs.length ∧ bytes = byteLen (cs.take k) ∧
        pos.line = p.line + nlCount (cs.take k) ∧ 1 + hashes ≤ asciiRun (cs.drop k) := by
  unfold rawContentsLoop
  apply scan_spec (rawContentsAct q hashes) _ (fun r => match r with
    | none => True
    | some (bytes, pos) => ∃ k, k ≤ cs.length ∧ bytes = byteLen (cs.take k) ∧
        pos.line = p.line + nlCount (cs.take k) ∧ 1 + hashes ≤ asciiRun (cs.drop k)) cs 0 p
    (rawContentsAct_ok q hashes)
  · intro done c cs' b p' r h0 hb hp hA
    rcases rawContentsAct_stop hA with hr | ⟨hr, h1, hk⟩
    · subst hr; trivial
    · subst hr
      refine ⟨done.length, by simp [h0], ?_, ?_, ?_⟩
      · rw [h0, take_length_append]; omega
      · rw [h0, take_length_append]; exact hp
      · have : (done ++ c :: cs').drop done.length = c :: cs' := by simp
        rw [h0, this, asciiRun_cons_plain (isQuote_plain h1)]
        have := matchHashes_le_asciiRun hashes cs'
        omega
  · intro b p' _ _
    trivial

/-- `parse_raw_string_start` saw `hashes` '#' characters (counted from `h0`) and a quote -/
theorem rawStringStart_asciiRun : ∀ (cs : List Ch) (h0 : Nat) (q : Quote) (h : Nat),
    rawStringStart cs h0 = some (q, h) → h0 ≤ h ∧ (h - h0) + 1 ≤ asciiRun cs := by
  intro cs
  induction cs with
  | nil => intro h0 q h hh; simp [rawStringStart] at hh
  | cons c cs ih =>
    intro h0 q h hh
    simp only [rawStringStart] at hh
    split at hh
    · rename_i hc
      have hp : plain c.cp = true := by rw [hc]; decide
      split at hh
      · cases hh
      · have := ih _ _ _ hh
        rw [asciiRun_cons_plain hp]
        omega
    · split at hh
      · rename_i q' hq
        cases hh
        have hp := quoteOf_plain hq
        rw [asciiRun_cons_plain hp]
        omega
      · cases hh

/-! ### consume_format_options -/

theorem findRBrace_spec : ∀ (cs : List Ch) (e : Nat), findRBrace cs = some e →
    ∃ k, k ≤ cs.length ∧ e = byteLen (cs.take k) := by
  intro cs
  induction cs with
  | nil => intro e h; simp [findRBrace] at h
  | cons c cs ih =>
    intro e h
    simp only [findRBrace] at h
    split at h
    · cases h; exact ⟨0, by simp, by simp⟩
    · cases hf : findRBrace cs with
      | none => simp [hf] at h
      | some e' =>
        simp [hf] at h
        obtain ⟨k, h1, h2⟩ := ih e' hf
        exact ⟨k + 1, by simp; omega, by simp [List.take_succ_cons, ← h, h2]; omega⟩

theorem posAfter_line : ∀ (cs : List Ch) (p : Pos), (posAfter p cs).line = p.line + nlCount cs := by
  intro cs
  induction cs with
  | nil => intro p; simp [posAfter]
  | cons c cs ih =>
    intro p
    simp only [posAfter]
    rw [ih]
    by_cases h : c.cp = cpNL
    · simp [h, nlCount_cons]; omega
    · simp [h, nlCount_cons]

theorem prefixAt_spec : ∀ (cs : List Ch) (n : Nat) (pre : List Ch), prefixAt n cs = some pre →
    pre = cs.take pre.length ∧ byteLen pre = n ∧ pre.length ≤ cs.length := by
  intro cs
  induction cs with
  | nil =>
    intro n pre h
    simp only [prefixAt] at h
    split at h
    · cases h; simp; omega
    · cases h
  | cons c cs ih =>
    intro n pre h
    simp only [prefixAt] at h
    split at h
    · cases h; simp; omega
    · split at h
      · simp only [Option.map_eq_some_iff] at h
        obtain ⟨pre', h1, rfl⟩ := h
        obtain ⟨e1, e2, e3⟩ := ih _ _ h1
        refine ⟨?_, ?_, ?_⟩
        · simp only [List.length_cons, List.take_succ_cons]; rw [← e1]
        · simp [e2]; omega
        · simp; omega
      · cases h

/-- `consume_format_options` (after the fix of F-C09-1) advances by the byte length of a prefix of
the input and tracks its line breaks -/
theorem consumeFormatOptions_spec (p : Pos) (cs : List Ch) (n : Nat) (q : Pos)
    (h : (consumeFormatOptions p cs).2 = .adv n q) :
    ∃ k, k ≤ cs.length ∧ n = byteLen (cs.take k) ∧ q.line = p.line + nlCount (cs.take k) := by
  unfold consumeFormatOptions at h
  simp only at h
  cases hd : dropBytes (formatSkip cs) cs with
  | none => simp [hd] at h
  | some rest =>
    cases hf : findRBrace rest with
    | none => simp [hd, hf] at h
    | some e =>
      cases hp : prefixAt (e + formatSkip cs) cs with
      | none => simp [hd, hf, hp] at h
      | some consumed =>
        simp only [hd, hf, hp, Move.adv.injEq] at h
        obtain ⟨hn, hq⟩ := h
        obtain ⟨e1, e2, e3⟩ := prefixAt_spec _ _ _ hp
        refine ⟨consumed.length, e3, ?_, ?_⟩
        · rw [← e1, e2, hn]
        · rw [← e1, ← hq, posAfter_line]

end KotoVerif.Lexer
