/-
Helper lemmas for Props/C17.lean (about `Model/Meta.lean`).
-/
import KotoVerif.Model.Meta

namespace KotoVerif.C17L
open KotoVerif.Meta KotoVerif.Gen

/-- spelling (after `@`) of a metakey according to the table generated from `parse_meta_key` -/
def spelling (k : MKey) : Option (List Nat) := (metaKeyTable.find? (fun p => p.2 == k)).map (·.1)

/-! ### `invoke` -/

theorem invoke_fn (tag : Name) (key : MKey) (b : Beh) (self : AV) (args : List AV) :
    invoke tag key (.fn b) self args = ([⟨tag, .mk key, self, args⟩], b.run self) := by
  simp [invoke, invokeAt, Beh.run]

/-- events produced for key `key` (≠ `@call`) carry exactly the given `self` and arguments -/
theorem invoke_operands (tag : Name) (key : MKey) (mv : MV) (self : AV) (args : List AV)
    (hk : key ≠ .Call) :
    ∀ e ∈ (invoke tag key mv self args).1, e.key = .mk key → e.self = self ∧ e.args = args := by
  intro e he hkey
  cases mv with
  | fn b => simp [invoke, invokeAt] at he; subst he; simp
  | native v => simp [invoke, invokeAt] at he; subst he; simp
  | nonCallable => simp [invoke, invokeAt] at he
  | chain mids fin =>
    unfold invoke invokeAt at he
    cases hm : mids.getLast? <;> cases fin <;> simp [hm] at he
    · subst he; simp
    · subst he; simp at hkey; exact absurd hkey.symm hk

/-! ### right-operand fallback keeps what was already traced -/

theorem hostRhs_prefix (op : ArithOp) (h : HostD) (lhs : Opd) (pre : List Ev) :
    ∃ t, (hostRhs op h lhs pre).trace = pre ++ t := by
  unfold hostRhs
  rcases hc : h.call op.rhm [lhs.av] with ⟨t, r⟩
  cases r <;> exact ⟨t, rfl⟩

theorem mapRhs_prefix (op : ArithOp) (tag : Name) (mv : MV) (lhs rhs : Opd) (pre : List Ev) :
    ∃ t, (mapRhs op tag mv lhs rhs pre).trace = pre ++ t := by
  unfold mapRhs
  exact ⟨_, rfl⟩

theorem rhsAfterUnimpl_prefix (op : ArithOp) (lhs rhs : Opd) (pre : List Ev) :
    ∃ t, (rhsAfterUnimpl op lhs rhs pre).trace = pre ++ t := by
  unfold rhsAfterUnimpl
  cases rhs with
  | prim k => exact ⟨[], by simp⟩
  | host h => exact hostRhs_prefix op h lhs pre
  | map m2 =>
    cases hm : m2.metaGet op.rkey with
    | none => exact ⟨[], by simp [hm]⟩
    | some p =>
      obtain ⟨tag, mv⟩ := p
      simp only [hm]
      exact mapRhs_prefix op tag mv lhs (.map m2) pre

/-! ### `with_meta` -/

theorem unshare_metaOf (l : Layer) : l.unshare.metaOf = l.metaOf := by
  unfold Layer.unshare Layer.metaOf
  cases hs : l.src with
  | none => simp [hs]
  | own m => simp [hs]
  | shared p m => cases m <;> simp [MetaSrc.get]

theorem unshare_name (l : Layer) : l.unshare.name = l.name := by
  unfold Layer.unshare
  cases hs : l.src with
  | none => rfl
  | own m => rfl
  | shared p m => cases m <;> rfl

theorem unshare_data (l : Layer) : l.unshare.data = l.data := by
  unfold Layer.unshare
  cases hs : l.src with
  | none => rfl
  | own m => rfl
  | shared p m => cases m <;> rfl

theorem unshare_metaGet (m : MapD) (k : MKey) : m.unshare.metaGet k = m.metaGet k := by
  simp [MapD.metaGet, MapD.unshare, unshare_metaOf]

theorem unshare_hasKey (m : MapD) (k : MKey) : m.unshare.hasKey k = m.hasKey k := by
  simp [MapD.hasKey, unshare_metaGet]

theorem unshare_av (m : MapD) : m.unshare.av = m.av := by
  simp [MapD.av, MapD.unshare, unshare_name]

theorem unshare_lookupLayers (k : Key) (ls : List Layer) :
    lookupLayers k (ls.map Layer.unshare) = lookupLayers k ls := by
  induction ls with
  | nil => rfl
  | cons l rest ih =>
    simp only [List.map_cons, lookupLayers, unshare_data, unshare_metaOf, unshare_name, ih]

theorem unshare_metaType (ls : List Layer) : metaType (ls.map Layer.unshare) = metaType ls := by
  induction ls with
  | nil => rfl
  | cons l rest ih =>
    simp only [List.map_cons, metaType, unshare_metaOf, ih]

theorem unshare_layers (m : MapD) : m.unshare.layers = m.layers.map Layer.unshare := by
  simp [MapD.layers, MapD.unshare]

/-! ### the documented lookup order, as a specification -/

/-- what one layer offers: its data entry first, then its `@meta` entry -/
def layerHit (k : Key) (l : Layer) : Option AV :=
  if l.data.contains k then some (.found l.name .data k)
  else match l.metaOf with
    | some mt => if mt.named.contains k then some (.found mt.tag .named k) else none
    | none => none

/-- the chain goes on below a layer iff the layer has a metamap and its `@base` is not a non-map -/
def continues (l : Layer) : Bool :=
  match l.metaOf with
  | some mt => !mt.baseBad
  | none => false

/-- how the lookup ends at a layer where the chain stops without a hit -/
def terminal (l : Layer) : Look :=
  match l.metaOf with
  | none => .coreMap
  | some _ => .badBase

/-- first layer along data, `@meta`, base¹, base², … that has the key — or that ends the chain -/
def lookupSpec (k : Key) (ls : List Layer) : Look :=
  match ls.find? (fun l => (layerHit k l).isSome || !continues l) with
  | none => .miss
  | some l =>
    match layerHit k l with
    | some v => .hit v
    | none => terminal l

theorem lookupLayers_eq_spec (k : Key) (ls : List Layer) : lookupLayers k ls = lookupSpec k ls := by
  induction ls with
  | nil => rfl
  | cons l rest ih =>
    unfold lookupSpec at ih ⊢
    unfold lookupLayers
    by_cases hd : k ∈ l.data
    · simp [List.find?, layerHit, hd]
    · cases hm : l.metaOf with
      | none => simp [List.find?, layerHit, hd, hm, continues, terminal]
      | some mt =>
        by_cases hn : k ∈ mt.named
        · simp [List.find?, layerHit, hd, hm, hn]
        · by_cases hb : mt.baseBad = true
          · simp [List.find?, layerHit, hd, hm, hn, hb, continues, terminal]
          · simp [List.find?, layerHit, hd, hm, hn, hb, continues, ih]

theorem lookup_skip_one (k : Key) (l : Layer) (xs : List Layer)
    (h1 : layerHit k l = none) (h2 : continues l = true) :
    lookupLayers k (l :: xs) = lookupLayers k xs := by
  unfold layerHit at h1
  unfold continues at h2
  simp only [lookupLayers]
  by_cases hd : k ∈ l.data
  · simp [hd] at h1
  · cases hm : l.metaOf with
    | none => simp [hm] at h2
    | some mt =>
      by_cases hn : k ∈ mt.named
      · simp [hd, hm, hn] at h1
      · simp [hm] at h2
        simp [hd, hn, h2]

/-! ### which value is `self`, which the argument -/

/-- the forms an event of a binary arithmetic operation can have -/
def Ordered (op : ArithOp) (lhs rhs : Opd) (e : Ev) : Prop :=
  (∃ tag, e = ⟨tag, .mk op.key, lhs.av, [rhs.av]⟩) ∨          -- lhs entry: (self := lhs, arg := rhs)
  (∃ tag, e = ⟨tag, .mk op.rkey, rhs.av, [lhs.av]⟩) ∨         -- rhs entry: (self := rhs, arg := lhs)
  (∃ n, e = ⟨n, .host op.hm, lhs.av, [rhs.av]⟩) ∨             -- lhs host method
  (∃ n, e = ⟨n, .host op.rhm, rhs.av, [lhs.av]⟩) ∨            -- rhs host `_rhs` method
  (∃ c, e = ⟨c, .mk .Call, .obj c, [rhs.av]⟩ ∨ e = ⟨c, .mk .Call, .obj c, [lhs.av]⟩)  -- via a callable map

theorem invoke_events (tag : Name) (key : MKey) (mv : MV) (self : AV) (args : List AV) :
    ∀ e ∈ (invoke tag key mv self args).1,
      e = ⟨tag, .mk key, self, args⟩ ∨ ∃ c, e = ⟨c, .mk .Call, .obj c, args⟩ := by
  intro e he
  cases mv with
  | fn b => simp [invoke, invokeAt] at he; exact Or.inl he
  | native v => simp [invoke, invokeAt] at he; exact Or.inl he
  | nonCallable => simp [invoke, invokeAt] at he
  | chain mids fin =>
    unfold invoke invokeAt at he
    cases hm : mids.getLast? <;> cases fin <;> simp [hm] at he
    · exact Or.inl he
    · exact Or.inr ⟨_, he⟩

theorem hostcall_events (h : HostD) (m : HM) (args : List AV) :
    ∀ e ∈ (h.call m args).1, e = ⟨h.name, .host m, h.av, args⟩ := by
  intro e he
  unfold HostD.call at he
  cases hl : h.impl.lookup m <;> simp [hl] at he
  exact he

theorem hostRhs_ordered (op : ArithOp) (h : HostD) (lhs : Opd) (pre : List Ev) :
    ∀ e ∈ (hostRhs op h lhs pre).trace, e ∈ pre ∨ Ordered op lhs (.host h) e := by
  intro e he
  unfold hostRhs at he
  rcases hc : h.call op.rhm [lhs.av] with ⟨t, r⟩
  have ht : ∀ e ∈ t, e = ⟨h.name, .host op.rhm, h.av, [lhs.av]⟩ := by
    have := hostcall_events h op.rhm [lhs.av]
    rw [hc] at this
    exact this
  rw [hc] at he
  have he' : e ∈ pre ++ t := by cases r <;> simpa using he
  rcases List.mem_append.mp he' with h1 | h1
  · exact Or.inl h1
  · exact Or.inr (Or.inr (Or.inr (Or.inr (Or.inl ⟨h.name, by simpa [Opd.av] using ht e h1⟩))))

theorem mapRhs_ordered (op : ArithOp) (tag : Name) (mv : MV) (lhs rhs : Opd) (pre : List Ev) :
    ∀ e ∈ (mapRhs op tag mv lhs rhs pre).trace, e ∈ pre ∨ Ordered op lhs rhs e := by
  intro e he
  unfold mapRhs at he
  simp only at he
  rcases List.mem_append.mp he with h1 | h1
  · exact Or.inl h1
  · rcases invoke_events tag op.rkey mv rhs.av [lhs.av] e h1 with h2 | ⟨c, h2⟩
    · exact Or.inr (Or.inr (Or.inl ⟨tag, h2⟩))
    · exact Or.inr (Or.inr (Or.inr (Or.inr (Or.inr ⟨c, Or.inr h2⟩))))

theorem rhsAfterUnimpl_ordered (op : ArithOp) (lhs rhs : Opd) (pre : List Ev) :
    ∀ e ∈ (rhsAfterUnimpl op lhs rhs pre).trace, e ∈ pre ∨ Ordered op lhs rhs e := by
  intro e he
  unfold rhsAfterUnimpl at he
  cases rhs with
  | prim k => exact Or.inl (by simpa using he)
  | host h => exact hostRhs_ordered op h lhs pre e he
  | map m2 =>
    cases hm : m2.metaGet op.rkey with
    | none => exact Or.inl (by simpa [hm] using he)
    | some p =>
      obtain ⟨tag, mv⟩ := p
      simp only [hm] at he
      exact mapRhs_ordered op tag mv lhs (.map m2) pre e he

theorem rhsDirect_ordered (op : ArithOp) (lhs rhs : Opd) :
    ∀ e ∈ (rhsDirect op lhs rhs).trace, Ordered op lhs rhs e := by
  intro e he
  unfold rhsDirect at he
  cases rhs with
  | prim k => simp at he
  | host h =>
    rcases hostRhs_ordered op h lhs [] e he with h1 | h1
    · simp at h1
    · exact h1
  | map m2 =>
    cases hm : m2.metaGet op.rkey with
    | none =>
      simp only [hm] at he
      cases lhs with
      | prim k => simp at he
      | host h => simp at he
      | map m => simp only at he; split at he <;> simp at he
    | some p =>
      obtain ⟨tag, mv⟩ := p
      simp only [hm] at he
      rcases mapRhs_ordered op tag mv lhs (.map m2) [] e he with h1 | h1
      · simp at h1
      · exact h1

theorem arith_ordered (op : ArithOp) (lhs rhs : Opd) :
    ∀ e ∈ (arith op lhs rhs).trace, Ordered op lhs rhs e := by
  intro e he
  unfold arith at he
  cases lhs with
  | prim a =>
    cases rhs with
    | prim b => simp only at he; split at he <;> simp at he
    | map m2 => exact rhsDirect_ordered op (.prim a) (.map m2) e he
    | host h2 => exact rhsDirect_ordered op (.prim a) (.host h2) e he
  | map m =>
    simp only at he
    cases hm : m.metaGet op.key with
    | none =>
      simp only [hm] at he
      exact rhsDirect_ordered op (.map m) rhs e he
    | some p =>
      obtain ⟨tag, mv⟩ := p
      simp only [hm] at he
      rcases hi : invoke tag op.key mv (Opd.map m).av [rhs.av] with ⟨t, r⟩
      have ht : ∀ e ∈ t, Ordered op (.map m) rhs e := by
        intro e' he'
        have := invoke_events tag op.key mv (Opd.map m).av [rhs.av] e' (by rw [hi]; exact he')
        rcases this with h2 | ⟨c, h2⟩
        · exact Or.inl ⟨tag, h2⟩
        · exact Or.inr (Or.inr (Or.inr (Or.inr ⟨c, Or.inl h2⟩)))
      rw [hi] at he
      cases r with
      | unimpl =>
        simp only at he
        rcases rhsAfterUnimpl_ordered op (.map m) rhs t e he with h1 | h1
        · exact ht e h1
        · exact h1
      | ret v => exact ht e (by simpa using he)
      | throw => exact ht e (by simpa using he)
      | notCallable => exact ht e (by simpa using he)
  | host h =>
    simp only at he
    rcases hc : h.call op.hm [rhs.av] with ⟨t, r⟩
    have ht : ∀ e ∈ t, Ordered op (.host h) rhs e := by
      intro e' he'
      have := hostcall_events h op.hm [rhs.av] e' (by rw [hc]; exact he')
      exact Or.inr (Or.inr (Or.inl ⟨h.name, by simpa [Opd.av] using this⟩))
    rw [hc] at he
    cases r with
    | unimpl =>
      simp only at he
      rcases rhsAfterUnimpl_ordered op (.host h) rhs t e he with h1 | h1
      · exact ht e h1
      · exact h1
    | ok v => exact ht e (by simpa using he)
    | err => exact ht e (by simpa using he)

/-! ### the `@iterator` nesting walk -/

theorem iterateResult_not_tooNested (t : List Ev) (r : CallRes) :
    (iterateResult t r).res ≠ .err .tooNested := by
  cases r with
  | ret v =>
    cases v <;> simp [iterateResult]
    all_goals (first | (rename_i k; cases k <;> simp [iterateResult]) | (rename_i b; cases b <;> simp [iterateResult]))
  | unimpl => simp [iterateResult, CallRes.pass]
  | throw => simp [iterateResult, CallRes.pass]
  | notCallable => simp [iterateResult, CallRes.pass]

/-- shape of every walk, for an arbitrary object graph: at most `l` `@iterator` evaluations, then
either the nesting error or the leaf handler on some value -/
theorem iterWalk_shape (nx : IterStep) (leaf : List Ev → CallRes → Out) :
    ∀ (l : Nat) (v : AV) (t : List Ev), ∃ t', t'.length ≤ l ∧
      (iterWalk nx leaf l v t = ⟨t ++ t', .err .tooNested⟩ ∨
       ∃ w, iterWalk nx leaf l v t = leaf (t ++ t') (.ret w)) := by
  intro l
  induction l with
  | zero =>
    intro v t
    refine ⟨[], by simp, ?_⟩
    cases h : nx v with
    | none => exact Or.inr ⟨v, by simp [iterWalk, h]⟩
    | some p => exact Or.inl (by simp [iterWalk, h])
  | succ l ih =>
    intro v t
    cases h : nx v with
    | none => exact ⟨[], by simp, Or.inr ⟨v, by simp [iterWalk, h]⟩⟩
    | some p =>
      obtain ⟨e, nv⟩ := p
      obtain ⟨t', hl, hs⟩ := ih nv (t ++ [e])
      refine ⟨e :: t', by simp; omega, ?_⟩
      rcases hs with hs | ⟨w, hs⟩
      · exact Or.inl (by simp [iterWalk, h, hs])
      · exact Or.inr ⟨w, by simp [iterWalk, h, hs]⟩

/-- one more level changes nothing unless the limit was hit -/
theorem iterWalk_succ_of_ok (nx : IterStep) (leaf : List Ev → CallRes → Out) :
    ∀ (l : Nat) (v : AV) (t : List Ev), (iterWalk nx leaf l v t).res ≠ .err .tooNested →
      iterWalk nx leaf (l + 1) v t = iterWalk nx leaf l v t := by
  intro l
  induction l with
  | zero =>
    intro v t h
    cases hn : nx v with
    | none => simp [iterWalk, hn]
    | some p => simp [iterWalk, hn] at h
  | succ l ih =>
    intro v t h
    cases hn : nx v with
    | none => simp [iterWalk, hn]
    | some p =>
      obtain ⟨e, nv⟩ := p
      have h' : (iterWalk nx leaf l nv (t ++ [e])).res ≠ .err .tooNested := by
        simpa [iterWalk, hn] using h
      have := ih nv (t ++ [e]) h'
      simp only [iterWalk, hn]
      exact this

/-- the events of the nest objects `i … i+k` -/
def nestEvents (i k d : Nat) (fin : NestFin) : List Ev :=
  (List.range k).map (fun j => ⟨909 + (i + j), .mk .Iterator, .aux (i + j) d fin, []⟩)

/-- walking down a nest that ends in a list: with enough levels left, every nest object is
evaluated once, in order, and the innermost list is iterated -/
theorem iterWalk_nest (root : AV) (rootEv : Ev) (v0 : AV) (leaf : List Ev → CallRes → Out)
    (d : Nat) (hroot : ∀ xs, root ≠ .lst xs) :
    ∀ (k i l : Nat) (t : List Ev), i + k = d → k + 1 ≤ l →
      iterWalk (nestStep root rootEv v0) leaf l (.aux i d .lst) t =
        leaf (t ++ nestEvents i (k + 1) d .lst) (.ret (.lst [20, 21])) := by
  intro k
  induction k with
  | zero =>
    intro i l t hi hl
    obtain ⟨l', rfl⟩ : ∃ l', l = l' + 1 := ⟨l - 1, by omega⟩
    have hid : ¬ i < d := by omega
    have hne : ¬ (AV.lst [20, 21] = root) := fun h => hroot _ h.symm
    cases l' with
    | zero => simp [iterWalk, nestStep, hid, NestFin.toAV, hne, nestEvents]
    | succ l'' => simp [iterWalk, nestStep, hid, NestFin.toAV, hne, nestEvents]
  | succ k ih =>
    intro i l t hi hl
    obtain ⟨l', rfl⟩ : ∃ l', l = l' + 1 := ⟨l - 1, by omega⟩
    have hid : i < d := by omega
    have := ih (i + 1) l' (t ++ [⟨909 + i, .mk .Iterator, .aux i d .lst, []⟩]) (by omega) (by omega)
    simp only [iterWalk, nestStep, hid, if_true]
    rw [this]
    congr 1
    simp [nestEvents, List.range_succ_eq_map, List.map_map, Function.comp_def, Nat.add_assoc, Nat.add_comm 1]

/-- a value whose `@iterator` returns itself (or any cycle folded into one step): exactly `l` more
evaluations, then the nesting error -/
theorem iterWalk_cycle (nx : IterStep) (leaf : List Ev → CallRes → Out) (v : AV) (e : Ev)
    (h : nx v = some (e, v)) :
    ∀ (l : Nat) (t : List Ev), iterWalk nx leaf l v t = ⟨t ++ List.replicate l e, .err .tooNested⟩ := by
  intro l
  induction l with
  | zero => intro t; simp [iterWalk, h]
  | succ l ih =>
    intro t
    simp only [iterWalk, h]
    rw [ih]
    simp [List.replicate_succ]

theorem invoke_trace_le_one (tag : Name) (key : MKey) (mv : MV) (self : AV) (args : List AV) :
    (invoke tag key mv self args).1.length ≤ 1 := by
  cases mv with
  | fn b => simp [invoke, invokeAt]
  | native v => simp [invoke, invokeAt]
  | nonCallable => simp [invoke, invokeAt]
  | chain mids fin =>
    unfold invoke invokeAt
    cases hm : mids.getLast? <;> cases fin <;> simp [hm]

end KotoVerif.C17L
