/-
C09: a `NewLine` token always ends at column 0 of the next line (so the token after it starts there).
-/
import KotoVerif.Lemmas.C09Inv

namespace KotoVerif.Lexer
open KotoVerif.Gen

theorem consumeNewline_col (p : Pos) (cs : List Ch) (h : (consumeNewline p cs).1 = .newLine) :
    ∃ n, (consumeNewline p cs).2 = .adv n ⟨p.line + 1, 0⟩ := by
  unfold consumeNewline at h ⊢
  cases cs with
  | nil => simp at h
  | cons c rest =>
    by_cases hc : c.cp = cpCR
    · simp only [hc, if_true] at h ⊢
      cases rest with
      | nil => simp at h
      | cons d rest' =>
        by_cases hd : d.cp = cpNL
        · simp [hd]
        · simp [hd] at h
    · simp only [hc, if_false] at h ⊢
      by_cases hd : c.cp = cpNL
      · simp [hd]
      · simp [hd] at h

theorem consumeComment_not_newline (p : Pos) (cs : List Ch) : (consumeComment p cs).1 ≠ .newLine := by
  unfold consumeComment
  cases cs with
  | nil => simp
  | cons c rest =>
    simp only
    split
    · split
      · simp
      · rename_i b q f _; cases f <;> simp
    · simp

theorem stringLiteralLoop_not_newline (q : Quote) (cs : List Ch) (p : Pos) :
    (stringLiteralLoop q cs 0 p).1 ≠ .newLine := by
  unfold stringLiteralLoop
  apply scan_spec (stringLiteralAct q) _ (fun r => r.1 ≠ .newLine) cs 0 p (stringLiteralAct_ok q)
  · intro done c cs' b p' r _ _ _ hA
    rcases stringLiteralAct_stop hA with hr | hr <;> subst hr <;> simp
  · intro b p' _ _; simp

theorem consumeFormatOptions_not_newline (p : Pos) (cs : List Ch) : (consumeFormatOptions p cs).1 ≠ .newLine := by
  unfold consumeFormatOptions
  simp only
  cases dropBytes (formatSkip cs) cs with
  | none => simp
  | some rest =>
    simp only
    cases hf : findRBrace rest with
    | none => simp
    | some e => simp only; cases hp : prefixAt (e + formatSkip cs) cs <;> simp

theorem consumeIdOrKeyword_not_newline (p : Pos) (prevTok : Option Token) (cs : List Ch) :
    ∀ t m, consumeIdOrKeyword p prevTok cs = .tok t m → t ≠ .newLine := by
  intro t m h
  unfold consumeIdOrKeyword at h
  cases cs with
  | nil => simp at h; obtain ⟨rfl, _⟩ := h; simp
  | cons c rest =>
    simp only at h
    repeat' split at h
    all_goals first
      | (simp at h; obtain ⟨rfl, _⟩ := h; simp)
      | (simp at h)

/-- the decision for a `NewLine` token ends on the next line, column 0 -/
theorem decideTok_newline (p : Pos) (prevTok : Option Token) (modes : List Mode) (c : Ch) (rest : List Ch)
    (h : (decideTok p prevTok modes c rest).tok = .newLine) :
    ∃ n, (decideTok p prevTok modes c rest).move = .adv n ⟨p.line + 1, 0⟩ := by
  have hdef : (decideDefault p prevTok modes c rest).tok = .newLine →
      ∃ n, (decideDefault p prevTok modes c rest).move = .adv n ⟨p.line + 1, 0⟩ := by
    intro h
    unfold decideDefault at h ⊢
    simp only at h ⊢
    by_cases h1 : isWhitespace c.cp = true
    · simp [h1] at h
    simp only [h1] at h ⊢
    by_cases h2 : (c.cp = cpCR || c.cp = cpNL) = true
    · simp only [h2, if_true] at h ⊢
      exact consumeNewline_col p (c :: rest) h
    simp only [h2] at h ⊢
    by_cases h3 : c.cp = cpHash
    · simp only [h3, if_true] at h
      exact absurd h (consumeComment_not_newline p (c :: rest))
    simp only [h3, if_false] at h ⊢
    by_cases h4 : c.cp = cpDQ
    · simp [h4] at h
    simp only [h4, if_false] at h ⊢
    by_cases h5 : c.cp = cpSQ
    · simp [h5] at h
    simp only [h5, if_false] at h ⊢
    by_cases h6 : isAsciiDigit c.cp = true
    · simp [h6] at h
    simp only [h6] at h ⊢
    by_cases h7 : c.idStart = true
    · simp only [h7, if_true] at h
      cases hr : consumeIdOrKeyword p prevTok (c :: rest) with
      | tok t m =>
        simp only [hr] at h
        exact absurd h (consumeIdOrKeyword_not_newline p prevTok (c :: rest) t m hr)
      | raw q' h' m => simp [hr] at h
    simp only [h7] at h ⊢
    by_cases h8 : c.cp = cpUnderscore
    · simp [h8, consumeIgnored] at h
    simp only [h8, if_false] at h ⊢
    cases hs : lookupSymbol (c :: rest) symbolTable with
    | none => simp [hs] at h
    | some nsy => simp [hs] at h
  unfold decideTok at h ⊢
  simp only at h ⊢
  cases hmode : modes.head? with
  | none => simp only [hmode] at h ⊢; exact hdef h
  | some m =>
    cases m with
    | literal q =>
      simp only [hmode] at h ⊢
      by_cases h1 : isQuote q c.cp = true
      · simp [h1] at h
      · simp only [h1] at h
        by_cases h2 : c.cp = cpLBrace
        · simp [h2] at h
        · simp only [h2, if_false] at h
          exact absurd h (stringLiteralLoop_not_newline q (c :: rest) p)
    | templateExpr => simp only [hmode] at h ⊢; exact hdef h
    | templateInlineMap => simp only [hmode] at h ⊢; exact hdef h
    | templateFormat =>
      simp only [hmode] at h
      exact absurd h (consumeFormatOptions_not_newline p (c :: rest))
    | rawStart q hsh =>
      simp only [hmode] at h
      cases hr : rawContentsLoop q hsh (c :: rest) 0 p <;> simp [hr] at h
    | rawEnd q hsh => simp [hmode] at h

end KotoVerif.Lexer
