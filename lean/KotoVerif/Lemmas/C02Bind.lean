/-
Helper lemmas for C02 (binding): the register shuffle of `call_koto_function` in closed form,
`call_generator` = `call_koto_function`, and the loop invariant of `unpack_packed_arguments`.
-/
import KotoVerif.Model.Bind

set_option linter.unusedSimpArgs false
set_option linter.unnecessarySimpa false

namespace KotoVerif.C02
open KotoVerif KotoVerif.Bind

theorem getD_app_left (A B : List Val) (n : Nat) (d : Val) (h : n < A.length) :
    (A ++ B).getD n d = A.getD n d := by
  simp [List.getD_eq_getElem?_getD, List.getElem?_append_left h]

theorem getD_app_right (A B : List Val) (n : Nat) (d : Val) (h : A.length ≤ n) :
    (A ++ B).getD n d = B.getD (n - A.length) d := by
  simp [List.getD_eq_getElem?_getD, List.getElem?_append_right h]

/-! ### closed form of `callKoto` -/

/-- the callee's initial registers as the guide prescribes them -/
def layout (f : FnVal) (self : Val) (args : List Val) : Regs :=
  self :: args.take f.expected
    ++ (f.captures.take f.optCount).drop (min args.length f.expected - f.required)
    ++ (if f.variadic then [Val.tuple (args.drop f.expected)] else [])
    ++ f.captures.drop f.optCount

theorem take_args_junk (args junk : List Val) (self : Val) :
    (self :: (args ++ junk)).take (1 + args.length) = self :: args := by
  rw [Nat.add_comm]
  simp [List.take_succ_cons]

theorem resize_exact (rs : Regs) : resize rs rs.length = rs := by
  simp [resize]

theorem resize_take (rs : Regs) (n : Nat) (h : n ≤ rs.length) : resize rs n = rs.take n := by
  simp [resize, h]

/-- `captures.drop skip |>.take k` when `skip + k = optCount` -/
theorem drop_take_defaults (cs : List Val) (o skip k : Nat) (h : skip + k = o) :
    (cs.drop skip).take k = (cs.take o).drop skip := by
  subst h
  rw [List.drop_take]
  simp

theorem callKoto_layout (f : FnVal) (self : Val) (args junk : List Val)
    (hopt : f.optCount ≤ f.expected) (hcap : f.optCount ≤ f.captures.length)
    (h1 : f.required ≤ args.length) (h2 : f.variadic = true ∨ args.length ≤ f.expected) :
    callKoto (self :: (args ++ junk)) args.length f = .ok (layout f self args) := by
  unfold callKoto
  rw [take_args_junk]
  have hreq : f.required = f.expected - f.optCount := rfl
  by_cases hlt : args.length < f.expected
  · -- some optional arguments are missing
    have hA : applyOptional (self :: args) f args.length f.expected
        = .ok (self :: args ++ (f.captures.take f.optCount).drop (args.length - f.required)) := by
      unfold applyOptional
      have e1 : ¬ (f.expected - args.length > f.optCount) := by omega
      have e2 : ¬ (f.captures.length < f.expected - args.length) := by omega
      simp only [hlt, if_true, e1, e2, if_false]
      rw [drop_take_defaults f.captures f.optCount (f.optCount - (f.expected - args.length)) (f.expected - args.length) (by omega)]
      have : f.optCount - (f.expected - args.length) = args.length - f.required := by omega
      rw [this]
    simp only [hA, bind, Except.bind]
    have htake : args.take f.expected = args := List.take_of_length_le (by omega)
    have hdrop : args.drop f.expected = [] := List.drop_eq_nil_of_le (by omega)
    have hmin : min args.length f.expected = args.length := by omega
    have hlen : ((f.captures.take f.optCount).drop (args.length - f.required)).length = f.expected - args.length := by
      simp [List.length_drop, List.length_take]; omega
    cases hv : f.variadic
    · -- not variadic
      unfold applyVariadic
      have e3 : ¬ (args.length > f.expected) := by omega
      simp [hv, e3, applyCaptures, layout, htake, hmin, pure, Except.pure]
    · unfold applyVariadic
      have e4 : ¬ (args.length ≥ f.expected) := by omega
      have hsz : (self :: args ++ (f.captures.take f.optCount).drop (args.length - f.required)).length = 1 + f.expected := by
        simp [hlen]; omega
      simp only [hv, if_true, e4, false_and, if_false]
      rw [← hsz, resize_exact]
      simp [applyCaptures, layout, htake, hdrop, hmin, hv, pure, Except.pure]
  · -- all declared arguments supplied
    have hA : applyOptional (self :: args) f args.length f.expected = .ok (self :: args) := by
      unfold applyOptional; simp [hlt]
    simp only [hA, bind, Except.bind]
    have hmin : min args.length f.expected = f.expected := by omega
    have hnod : (f.captures.take f.optCount).drop (f.expected - f.required) = [] := by
      apply List.drop_eq_nil_of_le; simp [List.length_take]; omega
    cases hv : f.variadic
    · have hle : args.length ≤ f.expected := by
        cases h2 with
        | inl h => simp [hv] at h
        | inr h => exact h
      have heq : args.length = f.expected := by omega
      unfold applyVariadic
      have e3 : ¬ (args.length > f.expected) := by omega
      have htake : args.take f.expected = args := List.take_of_length_le (by omega)
      simp [hv, e3, applyCaptures, layout, htake, hmin, hnod, pure, Except.pure]
    · unfold applyVariadic
      have e5 : args.length ≥ f.expected := by omega
      have e6 : ¬ (1 + f.expected + (args.length - f.expected) > (self :: args).length) := by
        simp; omega
      simp only [hv, if_true, e5, true_and, e6, if_false]
      rw [resize_take _ _ (by simp; omega)]
      have hd : (self :: args).drop (1 + f.expected) = args.drop f.expected := by
        rw [Nat.add_comm]; rfl
      have ht : (self :: args).take (1 + f.expected) = self :: args.take f.expected := by
        rw [Nat.add_comm]; rfl
      rw [hd, ht]
      have hall : (args.drop f.expected).take (args.length - f.expected) = args.drop f.expected :=
        List.take_of_length_le (by simp)
      simp [hall, applyCaptures, layout, hmin, hnod, hv, pure, Except.pure]

theorem callKoto_too_few (f : FnVal) (self : Val) (args junk : List Val)
    (h : args.length < f.required) :
    callKoto (self :: (args ++ junk)) args.length f = .error .insufficient := by
  unfold callKoto
  rw [take_args_junk]
  have hreq : f.required = f.expected - f.optCount := rfl
  unfold applyOptional
  have hlt : args.length < f.expected := by omega
  have e1 : f.expected - args.length > f.optCount := by omega
  simp [hlt, e1, bind, Except.bind]

theorem callKoto_too_many (f : FnVal) (self : Val) (args junk : List Val)
    (hv : f.variadic = false) (h : args.length > f.expected) :
    callKoto (self :: (args ++ junk)) args.length f = .error .tooMany := by
  unfold callKoto
  rw [take_args_junk]
  have hA : applyOptional (self :: args) f args.length f.expected = .ok (self :: args) := by
    unfold applyOptional
    have : ¬ args.length < f.expected := by omega
    simp [this]
  simp only [hA, bind, Except.bind]
  unfold applyVariadic
  simp [hv, h]

/-! ### `call_generator` performs the same binding -/

theorem callGenerator_eq (f : FnVal) (self : Val) (args junk : List Val) :
    callGenerator (self :: (args ++ junk)) args.length f
      = callKoto (self :: (args ++ junk)) args.length f := by
  unfold callGenerator callKoto
  rw [take_args_junk]
  have h0 : getReg (self :: (args ++ junk)) 0 = self := rfl
  have hd1 : (self :: (args ++ junk)).drop 1 = args ++ junk := rfl
  have hdk : (self :: (args ++ junk)).drop (1 + f.expected) = (args ++ junk).drop f.expected := by
    rw [Nat.add_comm]; rfl
  simp only [h0, hd1, hdk]
  by_cases hlt : args.length < f.expected
  · -- fewer arguments than declared: nothing extra to copy
    have hmin : min f.expected args.length = args.length := by omega
    have ht : (args ++ junk).take args.length = args := by simp
    have hz : args.length - f.expected = 0 := by omega
    rw [hmin, ht, hz]
    simp only [List.take_zero, List.append_nil]
    rfl
  · have hmin : min f.expected args.length = f.expected := by omega
    rw [hmin]
    have ht : (args ++ junk).take f.expected = args.take f.expected := by
      rw [List.take_append_of_le_length (by omega)]
    have hA (rs : Regs) : applyOptional rs f args.length f.expected = .ok rs := by
      unfold applyOptional; simp [hlt]
    have hx : ((args ++ junk).drop f.expected).take (args.length - f.expected) = args.drop f.expected := by
      rw [List.drop_append_of_le_length (by omega)]
      rw [List.take_append_of_le_length (by simp)]
      exact List.take_of_length_le (by simp)
    simp only [hA, bind, Except.bind, ht, hx]
    have : [self] ++ args.take f.expected ++ args.drop f.expected = self :: args := by
      simp [List.take_append_drop]
    rw [this]

/-! ### packed arguments -/

/-- the documented meaning: every packed argument is replaced by its elements -/
def specArgs (iter : Val → Option (List Val)) : List CallArg → List Val
  | [] => []
  | (v, true) :: as => (iter v).getD [] ++ specArgs iter as
  | (v, false) :: as => v :: specArgs iter as

/-- every packed argument is iterable -/
def allIterable (iter : Val → Option (List Val)) : List CallArg → Prop
  | [] => True
  | (v, true) :: as => (iter v).isSome ∧ allIterable iter as
  | (_, false) :: as => allIterable iter as

theorem packedIdxs_length_le (off : Nat) (as : List CallArg) : (packedIdxs off as).length ≤ as.length := by
  induction as generalizing off with
  | nil => simp [packedIdxs]
  | cons a as ih =>
    obtain ⟨v, p⟩ := a
    cases p
    · simp [packedIdxs]; exact Nat.le_succ_of_le (ih _)
    · simp [packedIdxs]; exact ih _

theorem set_take_mid (P R : List Val) (v x : Val) :
    ((P ++ v :: R).set P.length x).take P.length = P := by
  induction P with
  | nil => simp
  | cons a P ih => simpa using ih

theorem set_drop_mid (P R : List Val) (v x : Val) :
    ((P ++ v :: R).set P.length x).drop (P.length + 1) = R := by
  induction P with
  | nil => simp
  | cons a P ih => simpa using ih

theorem getD_mid (P R : List Val) (v d : Val) : (P ++ v :: R).getD P.length d = v := by
  induction P with
  | nil => simp
  | cons a P ih => simpa using ih

/-- Loop invariant of `unpack_packed_arguments`. `P` = arguments already spliced (the expansion of
the first `k` original arguments), `rest` = original arguments still in place. -/
theorem unpackLoop_spec (iter : Val → Option (List Val)) (self : Val) (junk : List Val)
    (rest : List CallArg) :
    ∀ (P : List Val) (k orig : Nat),
      orig = k + rest.length →
      allIterable iter rest →
      P.length + rest.length + (specArgs iter rest).length ≤ 254 →
      unpackLoop iter orig (packedIdxs k rest) (self :: (P ++ rest.map (·.1) ++ junk), P.length + rest.length)
        = .ok (self :: (P ++ specArgs iter rest ++ junk), P.length + (specArgs iter rest).length) := by
  induction rest with
  | nil =>
    intro P k orig _ _ _
    simp [packedIdxs, unpackLoop, specArgs]
  | cons a rest ih =>
    intro P k orig horig hit hlim
    obtain ⟨v, p⟩ := a
    cases p
    · -- ordinary argument: stays in place
      simp only [packedIdxs, specArgs, List.map_cons, List.length_cons] at *
      have := ih (P ++ [v]) (k + 1) orig (by omega) hit (by simp; omega)
      simp only [List.length_append, List.length_singleton, List.append_assoc, List.singleton_append] at this
      have e1 : P.length + 1 + rest.length = P.length + (rest.length + 1) := by omega
      have e2 : P.length + 1 + (specArgs iter rest).length = P.length + ((specArgs iter rest).length + 1) := by omega
      rw [e1, e2] at this
      simpa using this
    · -- packed argument
      obtain ⟨hsome, hit'⟩ := hit
      obtain ⟨vs, hvs⟩ := Option.isSome_iff_exists.mp hsome
      have hspec : specArgs iter ((v, true) :: rest) = vs ++ specArgs iter rest := by
        simp [specArgs, hvs]
      rw [hspec] at hlim ⊢
      simp only [List.length_cons, List.length_append] at hlim horig
      simp only [packedIdxs, unpackLoop, List.map_cons, List.length_cons]
      have happ : P ++ v :: rest.map (·.1) ++ junk = P ++ v :: (rest.map (·.1) ++ junk) := by simp
      rw [happ]
      generalize hR : rest.map (·.1) ++ junk = R
      -- the index computed by the loop is 1 + P.length
      have hidx : ((1 + (k : Int)) + (((P.length + (rest.length + 1) : Nat) : Int) - (orig : Int))).toNat = P.length + 1 := by
        subst horig; omega
      have hlenlt : ¬ (P.length + 1 ≥ (self :: (P ++ v :: R)).length) := by
        simp
      have hget : getReg (self :: (P ++ v :: R)) (P.length + 1) = v := by
        unfold getReg
        simp [List.getD_cons_succ, getD_mid]
      have hlimit : ¬ (vs.length > 254 - (P.length + (rest.length + 1))) := by omega
      have hstep : unpackOne iter orig (self :: (P ++ v :: R), P.length + (rest.length + 1)) k
          = .ok (self :: (P ++ vs ++ R), P.length + vs.length + rest.length) := by
        unfold unpackOne
        simp only [hidx, hlenlt, if_false, hget, hvs, hlimit]
        rw [List.set_cons_succ, List.take_succ_cons, List.drop_succ_cons, set_take_mid, set_drop_mid]
        have e1 : P.length + (rest.length + 1) - 1 + vs.length = P.length + vs.length + rest.length := by omega
        rw [e1]
        simp
      rw [hstep]
      have := ih (P ++ vs) (k + 1) orig (by omega) hit' (by simp [List.length_append]; omega)
      simp only [List.length_append] at this
      rw [← hR]
      simp only [List.length_append, List.append_assoc] at this ⊢
      rw [this]
      have e2 : P.length + (vs.length + (specArgs iter rest).length) = P.length + vs.length + (specArgs iter rest).length := by omega
      rw [e2]

/-! ### reading the index registers back, draining them -/

theorem packedIdxs_lt (off : Nat) (as : List CallArg) : ∀ i ∈ packedIdxs off as, i < off + as.length := by
  induction as generalizing off with
  | nil => simp [packedIdxs]
  | cons a as ih =>
    obtain ⟨v, p⟩ := a
    cases p
    · intro i hi
      simp only [packedIdxs] at hi
      have := ih _ i hi
      simp; omega
    · intro i hi
      simp only [packedIdxs, List.mem_cons] at hi
      cases hi with
      | inl h => subst h; simp
      | inr h => have := ih _ i h; simp; omega

theorem asIndex_int (i : Nat) (h : i < 2 ^ 63) : asIndex (Val.int (i : Nat)) = .ok i := by
  unfold Val.int asIndex
  simp only
  rw [Int64.toInt_ofInt_of_le (by omega) (by omega)]
  simp

theorem mapExcept_asIndex (is : List Nat) (h : ∀ i ∈ is, i < 2 ^ 63) :
    mapExcept asIndex (is.map (fun i => Val.int (i : Nat))) = .ok is := by
  induction is with
  | nil => rfl
  | cons i is ih =>
    simp only [List.map_cons, mapExcept]
    rw [asIndex_int i (h i (by simp)), ih (fun j hj => h j (by simp [hj]))]

theorem read_idx_regs (self : Val) (A I junk : List Val) :
    ((self :: (A ++ I ++ junk)).drop (1 + A.length)).take I.length = I := by
  rw [Nat.add_comm, List.drop_succ_cons, List.append_assoc, List.drop_append_of_le_length (by simp)]
  simp

theorem drain_idx_regs (self : Val) (A I junk : List Val) :
    (self :: (A ++ I ++ junk)).take (1 + A.length) ++ (self :: (A ++ I ++ junk)).drop (1 + A.length + I.length)
      = self :: (A ++ junk) := by
  have e1 : 1 + A.length = A.length + 1 := by omega
  have e2 : A.length + 1 + I.length = (A.length + I.length) + 1 := by omega
  rw [e1, e2, List.take_succ_cons, List.drop_succ_cons]
  rw [List.append_assoc, List.take_append_of_le_length (by simp)]
  simp only [List.take_length, List.cons_append, List.cons.injEq, true_and]
  congr 1
  rw [← List.append_assoc, List.drop_append_of_le_length (by simp)]
  simp

/-! ### creation of the captures list -/

theorem set_mid (A B : List Val) (r v : Val) : (A ++ r :: B).set A.length v = A ++ v :: B := by
  induction A with
  | nil => rfl
  | cons a A ih => simp [ih]

theorem set_same_comm (l : List Val) (i k : Nat) (x : Val) :
    (l.set i x).set k x = (l.set k x).set i x := by
  by_cases h : i = k
  · subst h; rfl
  · exact List.set_comm x x h

theorem applyDeferred_set (fv : Val) (d : List Nat) : ∀ (l : List Val) (i : Nat),
    applyDeferred fv (l.set i fv) d = (applyDeferred fv l d).set i fv := by
  induction d with
  | nil => intro l i; rfl
  | cons k d ih =>
    intro l i
    simp only [applyDeferred, setSlot]
    rw [set_same_comm, ih]

theorem applyDefaultCaps_spec (vs : List Val) : ∀ (P : List Val) (k : Nat),
    applyDefaultCaps (P ++ List.replicate (vs.length + k) Val.null) P.length vs
      = P ++ vs ++ List.replicate k Val.null := by
  induction vs with
  | nil => intro P k; simp [applyDefaultCaps]
  | cons v vs ih =>
    intro P k
    simp only [applyDefaultCaps, setSlot, List.length_cons]
    have e : vs.length + 1 + k = (vs.length + k) + 1 := by omega
    rw [e, List.replicate_succ, set_mid]
    have := ih (P ++ [v]) k
    simp only [List.length_append, List.length_singleton, List.append_assoc, List.singleton_append] at this
    simpa using this

theorem applyCaptureOps_spec (fv : Val) (D : List Val) (cs : List CapSrc) :
    ∀ (Q R : List Val), R.length = cs.length →
      applyDeferred fv (applyCaptureOps D.length (D ++ Q ++ R) Q.length cs).1
          (applyCaptureOps D.length (D ++ Q ++ R) Q.length cs).2
        = D ++ Q ++ cs.map (CapSrc.value fv) := by
  induction cs with
  | nil =>
    intro Q R hR
    have : R = [] := List.eq_nil_of_length_eq_zero hR
    subst this
    simp [applyCaptureOps, applyDeferred]
  | cons c cs ih =>
    intro Q R hR
    cases R with
    | nil => simp at hR
    | cons r R0 =>
      have hR0 : R0.length = cs.length := by simpa using hR
      have hlen : (D ++ Q).length = D.length + Q.length := by simp
      cases c with
      | val v =>
        simp only [applyCaptureOps, setSlot, List.map_cons, CapSrc.value]
        rw [← hlen, set_mid]
        have := ih (Q ++ [v]) R0 hR0
        simp only [List.length_append, List.length_singleton, List.append_assoc, List.singleton_append] at this
        simpa [List.append_assoc] using this
      | self =>
        simp only [applyCaptureOps, applyDeferred, setSlot, List.map_cons, CapSrc.value]
        rw [applyDeferred_set]
        have := ih (Q ++ [r]) R0 hR0
        simp only [List.length_append, List.length_singleton, List.append_assoc, List.singleton_append] at this
        simp only [List.append_assoc]
        rw [this]
        have : D ++ (Q ++ r :: cs.map (CapSrc.value fv)) = (D ++ Q) ++ r :: cs.map (CapSrc.value fv) := by simp
        rw [this, ← hlen, set_mid]
        simp

/-! ### well-formed parameter lists and the frame layout -/

theorem dedup_length_of_nodup (l : List Bind.Name) (h : nodupB l = true) : (dedup l).length = l.length := by
  induction l with
  | nil => rfl
  | cons x xs ih =>
    simp only [nodupB, Bool.and_eq_true, Bool.not_eq_true'] at h
    have hx : x ∉ xs := by simpa using h.1
    simp [dedup, hx, ih h.2]

theorem params_length (ps : List Param) : ps.length = (topNames ps).length + placeholders ps := by
  induction ps with
  | nil => rfl
  | cons p ps ih =>
    cases p <;> simp [topNames, placeholders, ih] <;> omega

end KotoVerif.C02
