/-
Helper lemmas for C05: the var-u32 codec and the generic field codec round trip.
-/
import KotoVerif.Model.Decode

namespace KotoVerif.Bytecode
open KotoVerif.Gen

private theorem cont_not_lt (x : Nat) : ¬ (x % 128 + 128 < 128) := by omega
private theorem last_lt (x : Nat) : x % 128 < 128 := by omega
private theorem cont_mod (x : Nat) : (x % 128 + 128) % 128 = x % 128 := by omega

theorem decodeVarN_encodeVar (n : Nat) (r : List Nat) (h : n < 4294967296) :
    decodeVarN (encodeVar n ++ r) = some (n, (encodeVar n).length, r) := by
  unfold encodeVar decodeVarN
  by_cases h1 : n / 128 = 0
  · simp [encodeVarFuel, decodeVarFuel, h1, last_lt]; omega
  · by_cases h2 : n / 128 / 128 = 0
    · simp [encodeVarFuel, decodeVarFuel, h1, h2, cont_not_lt, last_lt, cont_mod]; omega
    · by_cases h3 : n / 128 / 128 / 128 = 0
      · simp [encodeVarFuel, decodeVarFuel, h1, h2, h3, cont_not_lt, last_lt, cont_mod]; omega
      · by_cases h4 : n / 128 / 128 / 128 / 128 = 0
        · simp [encodeVarFuel, decodeVarFuel, h1, h2, h3, h4, cont_not_lt, last_lt, cont_mod]; omega
        · have h5 : n / 128 / 128 / 128 / 128 / 128 = 0 := by omega
          simp [encodeVarFuel, decodeVarFuel, h1, h2, h3, h4, h5, cont_not_lt, last_lt, cont_mod]; omega

theorem encodeVar_ne_nil (n : Nat) : encodeVar n ≠ [] := by
  unfold encodeVar encodeVarFuel
  split <;> simp

theorem encodeField_ne_nil (f : Fld) (v : Nat) : encodeField f v ≠ [] := by
  cases f <;> simp [encodeField, encodeU16, encodeVar_ne_nil]

theorem decodeField_encodeField (f : Fld) (v : Nat) (r : List Nat) (h : fieldOk f v = true) :
    decodeField f (encodeField f v ++ r) = some (v, (encodeField f v).length, r) := by
  cases f with
  | reg => simp [encodeField, decodeField]
  | imm => simp [encodeField, decodeField]
  | immLt b =>
    simp [fieldOk] at h
    simp [encodeField, decodeField, h.2]
  | var =>
    simp [fieldOk] at h
    simpa [encodeField, decodeField] using decodeVarN_encodeVar v r h
  | const k =>
    simp [fieldOk] at h
    simpa [encodeField, decodeField] using decodeVarN_encodeVar v r h
  | off => simp [encodeField, decodeField, encodeU16, decodeU16]; omega
  | offBack => simp [encodeField, decodeField, encodeU16, decodeU16]; omega
  | size16 => simp [encodeField, decodeField, encodeU16, decodeU16]; omega

theorem decodeFields_encodeFields (fs : List Fld) (vs : List Nat) (r : List Nat)
    (h : fieldsOk fs vs = true) :
    decodeFields fs (encodeFields fs vs ++ r) = some (vs, (encodeFields fs vs).length, r) := by
  induction fs generalizing vs with
  | nil =>
    cases vs with
    | nil => simp [encodeFields, decodeFields]
    | cons v vs => simp [fieldsOk] at h
  | cons f fs ih =>
    cases vs with
    | nil => simp [fieldsOk] at h
    | cons v vs =>
      simp [fieldsOk] at h
      simp [encodeFields, decodeFields, List.append_assoc, decodeField_encodeField f v _ h.1, ih vs h.2]

theorem fieldsOk_append (fs1 fs2 : List Fld) (vs : List Nat) (h : fieldsOk (fs1 ++ fs2) vs = true) :
    fieldsOk fs1 (vs.take fs1.length) = true ∧ fieldsOk fs2 (vs.drop fs1.length) = true := by
  induction fs1 generalizing vs with
  | nil => simpa [fieldsOk] using h
  | cons f fs ih =>
    cases vs with
    | nil => simp [fieldsOk] at h
    | cons v vs =>
      simp [fieldsOk] at h
      have := ih vs h.2
      simp [fieldsOk, h.1, this]

theorem encodeFields_append (fs1 fs2 : List Fld) (vs : List Nat) (h : fieldsOk (fs1 ++ fs2) vs = true) :
    encodeFields (fs1 ++ fs2) vs
      = encodeFields fs1 (vs.take fs1.length) ++ encodeFields fs2 (vs.drop fs1.length) := by
  induction fs1 generalizing vs with
  | nil => simp [encodeFields]
  | cons f fs ih =>
    cases vs with
    | nil => simp [fieldsOk] at h
    | cons v vs =>
      simp [fieldsOk] at h
      simp [encodeFields, ih vs h.2, List.append_assoc]

theorem ofCode_code (op : Op) : Op.ofCode op.code = some op := by
  cases op <;> rfl

theorem layout_ne_nil (op : Op) : layout op ≠ [] := by
  cases op <;> simp [layout]

theorem encodeFields_ne_nil (fs : List Fld) (vs : List Nat) (hfs : fs ≠ []) (h : fieldsOk fs vs = true) :
    encodeFields fs vs ≠ [] := by
  cases fs with
  | nil => exact absurd rfl hfs
  | cons f fs =>
    cases vs with
    | nil => simp [fieldsOk] at h
    | cons v vs => simp [encodeFields, encodeField_ne_nil]

theorem decode_encode (i : Instr) (r : List Nat) (h : i.valid = true) :
    decode (encode i ++ r) = .ok i (encode i).length r := by
  obtain ⟨op, args⟩ := i
  unfold Instr.valid Instr.fields Instr.staticArgs at h
  simp only at h
  have hs := fieldsOk_append _ _ _ h
  have he := encodeFields_append _ _ _ h
  have hne : encodeFields (layout op) (args.take (layout op).length) ≠ [] :=
    encodeFields_ne_nil _ _ (layout_ne_nil op) hs.1
  unfold encode Instr.fields Instr.staticArgs
  simp only [he]
  obtain ⟨b, bs, hb⟩ := List.exists_cons_of_ne_nil hne
  have h1 := decodeFields_encodeFields (layout op) (args.take (layout op).length)
    (encodeFields (tailLayout op (args.take (layout op).length)) (args.drop (layout op).length) ++ r) hs.1
  have h2 := decodeFields_encodeFields (tailLayout op (args.take (layout op).length))
    (args.drop (layout op).length) r hs.2
  rw [hb] at h1
  simp only [List.cons_append, List.append_assoc] at h1 ⊢
  rw [hb]
  simp only [List.cons_append, decode, ofCode_code, h1, h2, List.take_append_drop, List.length_cons,
    List.length_append]
  congr 1
  omega

/-! ### progress: decoding consumes exactly `size ≥ 2` bytes -/

theorem decodeVarFuel_len (fuel shift acc : Nat) (bs : List Nat) (v n : Nat) (r : List Nat)
    (h : decodeVarFuel fuel shift acc bs = some (v, n, r)) : 1 ≤ n ∧ bs.length = n + r.length := by
  induction fuel generalizing shift acc bs v n r with
  | zero => simp [decodeVarFuel] at h
  | succ fuel ih =>
    cases bs with
    | nil => simp [decodeVarFuel] at h
    | cons b rest =>
      simp only [decodeVarFuel] at h
      split at h
      · simp at h
        obtain ⟨_, rfl, rfl⟩ := h
        simp; omega
      · split at h
        · rename_i v' n' r' heq
          simp at h
          obtain ⟨_, rfl, rfl⟩ := h
          have := ih _ _ _ _ _ _ heq
          simp; omega
        · simp at h

theorem decodeField_len (f : Fld) (bs : List Nat) (v n : Nat) (r : List Nat)
    (h : decodeField f bs = some (v, n, r)) : 1 ≤ n ∧ bs.length = n + r.length := by
  cases f with
  | reg => cases bs <;> simp [decodeField] at h; obtain ⟨_, rfl, rfl⟩ := h; simp; omega
  | imm => cases bs <;> simp [decodeField] at h; obtain ⟨_, rfl, rfl⟩ := h; simp; omega
  | immLt b =>
    cases bs with
    | nil => simp [decodeField] at h
    | cons x xs =>
      simp only [decodeField] at h
      split at h
      · simp at h; obtain ⟨_, rfl, rfl⟩ := h; simp; omega
      · simp at h
  | var => exact decodeVarFuel_len _ _ _ _ _ _ _ (by simpa [decodeField, decodeVarN] using h)
  | const k => exact decodeVarFuel_len _ _ _ _ _ _ _ (by simpa [decodeField, decodeVarN] using h)
  | off =>
    match bs, h with
    | a :: b :: r', h => simp [decodeField] at h; obtain ⟨_, rfl, rfl⟩ := h; simp; omega
    | [_], h => simp [decodeField] at h
    | [], h => simp [decodeField] at h
  | offBack =>
    match bs, h with
    | a :: b :: r', h => simp [decodeField] at h; obtain ⟨_, rfl, rfl⟩ := h; simp; omega
    | [_], h => simp [decodeField] at h
    | [], h => simp [decodeField] at h
  | size16 =>
    match bs, h with
    | a :: b :: r', h => simp [decodeField] at h; obtain ⟨_, rfl, rfl⟩ := h; simp; omega
    | [_], h => simp [decodeField] at h
    | [], h => simp [decodeField] at h

theorem decodeFields_len (fs : List Fld) (bs : List Nat) (vs : List Nat) (n : Nat) (r : List Nat)
    (h : decodeFields fs bs = some (vs, n, r)) :
    fs.length ≤ n ∧ bs.length = n + r.length ∧ vs.length = fs.length := by
  induction fs generalizing bs vs n r with
  | nil => simp [decodeFields] at h; obtain ⟨rfl, rfl, rfl⟩ := h; simp
  | cons f fs ih =>
    simp only [decodeFields] at h
    split at h
    · simp at h
    · rename_i v k r1 h1
      split at h
      · simp at h
      · rename_i vs' m r2 h2
        simp at h
        obtain ⟨rfl, rfl, rfl⟩ := h
        have a := decodeField_len _ _ _ _ _ h1
        have b := ih _ _ _ _ h2
        simp; omega

theorem decode_len (bs : List Nat) (i : Instr) (size : Nat) (rest : List Nat)
    (h : decode bs = .ok i size rest) : 2 ≤ size ∧ bs.length = size + rest.length := by
  match bs, h with
  | [], h => simp [decode] at h
  | [_], h => simp [decode] at h
  | opb :: b :: bs', h =>
    simp only [decode] at h
    split at h
    · simp at h
    · rename_i op _
      split at h
      · simp at h
      · rename_i args n r1 h1
        split at h
        · simp at h
        · rename_i targs m r2 h2
          simp at h
          obtain ⟨_, rfl, rfl⟩ := h
          have a := decodeFields_len _ _ _ _ _ h1
          have b := decodeFields_len _ _ _ _ _ h2
          have c : 1 ≤ (layout op).length := by
            have := layout_ne_nil op
            cases hl : layout op with
            | nil => exact absurd hl this
            | cons _ _ => simp
          simp at a ⊢; omega

end KotoVerif.Bytecode
