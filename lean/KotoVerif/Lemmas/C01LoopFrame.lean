/-
C01 layer 5, loop layer: two more facts about the expression compiler's use of the compile-time
frame, needed because a loop body is compiled *once* but executed many times:

* `compile_resLe`  — `compile` leaves no reservation behind: every slot that is still `Reserved`
                     afterwards was `Reserved` before (`x = e` reserves, compiles `e`, commits);
* `compile_stable` — compiling the same expression again in a frame that already contains every
                     local the first compilation introduced (and has no pending reservation, the
                     same temporary base and the same number of live temporaries) emits the *same
                     code* with the *same output register* and does not change the locals.

Together: the code emitted for a loop body in the frame at loop entry is the code the compiler
would emit for it in the frame at the end of the body — the frame every later iteration runs in.
-/
import KotoVerif.Lemmas.C01FrameFacts
import KotoVerif.Model.CompileLoop

namespace KotoVerif.Compile

/-- no pending reservation -/
def NoRes (F : Frame) : Prop := ∀ (k : Nat) (x : VarId), F.locals[k]? ≠ some (Slot.reserved x)

/-- every slot reserved in `F'` was already reserved in `F` -/
def ResLe (F F' : Frame) : Prop :=
  ∀ (k : Nat) (x : VarId), F'.locals[k]? = some (Slot.reserved x) → F.locals[k]? = some (Slot.reserved x)

theorem ResLe.refl (F : Frame) : ResLe F F := fun _ _ h => h

theorem ResLe.trans {A B C : Frame} (h1 : ResLe A B) (h2 : ResLe B C) : ResLe A C :=
  fun k x h => h1 k x (h2 k x h)

theorem ResLe.of_locals_eq {F F' : Frame} (h : F'.locals = F.locals) : ResLe F F' :=
  fun k x hk => by rw [h] at hk; exact hk

theorem NoRes.of_resLe {F F' : Frame} (h : NoRes F) (hle : ResLe F F') : NoRes F' :=
  fun k x hk => h k x (hle k x hk)

theorem NoRes.of_locals_eq {F F' : Frame} (h : NoRes F) (h1 : F'.locals = F.locals) : NoRes F' :=
  h.of_resLe (ResLe.of_locals_eq h1)

theorem NoRes.has {F : Frame} (h : NoRes F) {k : Reg} {x : VarId} (hn : Named F k x) : Has F k x := by
  unfold Named at hn
  unfold Has
  cases hs : F.locals[k]? with
  | none => simp [hs] at hn
  | some s =>
    cases s with
    | allocated => simp [hs, Slot.id?] at hn
    | assigned y => simp [hs, Slot.id?] at hn; rw [hn]
    | reserved y => exact absurd hs (h k y)

/-- `reserve x` adds at most the slot it returns -/
theorem reserve_reserved {F F' : Frame} {x : VarId} {r : Reg} (h : F.reserve x = some (r, F')) :
    ∀ (k : Nat) (y : VarId), F'.locals[k]? = some (Slot.reserved y) → k = r ∨ F.locals[k]? = some (Slot.reserved y) := by
  intro k y hk
  unfold Frame.reserve at h
  cases hg : F.getAssignedOrReserved x with
  | some r0 =>
    simp [hg] at h
    obtain ⟨_, rfl⟩ := h
    exact Or.inr hk
  | none =>
    simp only [hg] at h
    split at h
    · cases h
      simp only at hk
      by_cases h1 : k < F.locals.length
      · rw [List.getElem?_append_left h1] at hk; exact Or.inr hk
      · by_cases h3 : k = F.locals.length
        · exact Or.inl h3
        · have : (F.locals ++ [Slot.reserved x])[k]? = none := List.getElem?_eq_none (by simp; omega)
          simp [this] at hk
    · cases h

/-- `commit r` turns slot `r` into `Assigned` and touches nothing else -/
theorem commit_reserved {F F' : Frame} {r : Reg} {x : VarId} (hn : Named F r x) (h : F.commit r = some F') :
    ∀ (k : Nat) (y : VarId), F'.locals[k]? = some (Slot.reserved y) → k ≠ r ∧ F.locals[k]? = some (Slot.reserved y) := by
  intro k y hk
  unfold Frame.commit at h
  have hlt := hn.lt
  cases hs : F.locals[r]? with
  | none => simp [hs] at h
  | some s =>
    cases s with
    | allocated => simp [hs] at h
    | assigned z =>
      simp [hs] at h
      subst h
      refine ⟨?_, hk⟩
      intro hkr; subst hkr; rw [hs] at hk; cases hk
    | reserved z =>
      simp [hs] at h
      subst h
      simp only at hk
      by_cases hkr : k = r
      · subst hkr
        rw [List.getElem?_set_self hlt] at hk
        cases hk
      · rw [List.getElem?_set_ne (Ne.symm hkr)] at hk
        exact ⟨hkr, hk⟩

theorem assignResult_locals {m : Mode} {F F1 : Frame} {res : Out} (h : assignResult m F = some (res, F1)) :
    F1.locals = F.locals := (assignResult_spec h).1

theorem compile_resLe : ∀ (e : Expr) (m : Mode) (F : Frame) (code : Code) (out : Out) (F' : Frame),
    compile e m F = some (code, out, F') → WF F → ResLe F F' := by
  intro e
  induction e with
  | null | bool _ | int _ =>
    intro m F code out F' h hw
    simp only [compile, bind, Option.bind_eq_some_iff, Prod.exists, pure, Option.some.injEq, Prod.mk.injEq] at h
    obtain ⟨res, F1, ha, _, rfl, rfl⟩ := h
    exact ResLe.of_locals_eq (assignResult_locals ha)
  | var x =>
    intro m F code out F' h hw
    simp only [compile] at h
    cases hg : F.getAssigned x with
    | none => simp [hg] at h
    | some rx =>
      simp only [hg] at h
      cases m <;> (simp at h; obtain ⟨_, _, rfl⟩ := h; exact ResLe.refl _)
  | un op e ih =>
    intro m F code out F' h hw
    simp only [compile, bind, Option.bind_eq_some_iff, Prod.exists, pure, Option.some.injEq, Prod.mk.injEq] at h
    obtain ⟨res, F1, ha, c, o, F2, hc, vr, _, F3, hp, _, rfl, rfl⟩ := h
    obtain ⟨h1, h2, _⟩ := assignResult_spec ha
    have hw1 := hw.of_locals_eq h1 h2
    obtain ⟨p1, _⟩ := popIf_spec hp
    exact (ResLe.of_locals_eq h1).trans ((ih .any F1 c o F2 hc hw1).trans (ResLe.of_locals_eq p1))
  | bin op a b iha ihb =>
    intro m F code out F' h hw
    simp only [compile, bind, Option.bind_eq_some_iff, Prod.exists] at h
    obtain ⟨res, F1, ha, h⟩ := h
    obtain ⟨h1, h2, _⟩ := assignResult_spec ha
    have hw1 := hw.of_locals_eq h1 h2
    cases hr : res.reg with
    | some r =>
      simp only [hr, Option.bind_eq_some_iff, Prod.exists, pure, Option.some.injEq, Prod.mk.injEq] at h
      obtain ⟨ca, oa, F2, hca, ra, _, cb, ob, F3, hcb, rb, _, F4, hp1, F5, hp2, _, rfl, rfl⟩ := h
      have ffa := compile_frame a .any F1 ca oa F2 hca hw1
      obtain ⟨p1, _⟩ := popIf_spec hp1
      obtain ⟨q1, _⟩ := popIf_spec hp2
      exact (ResLe.of_locals_eq h1).trans ((iha .any F1 ca oa F2 hca hw1).trans
        ((ihb .any F2 cb ob F3 hcb ffa.wf).trans ((ResLe.of_locals_eq p1).trans (ResLe.of_locals_eq q1))))
    | none =>
      simp only [hr, Option.bind_eq_some_iff, Prod.exists, pure, Option.some.injEq, Prod.mk.injEq] at h
      obtain ⟨ca, oa, F2, hca, cb, ob, F3, hcb, _, rfl, rfl⟩ := h
      have ffa := compile_frame a .none F1 ca oa F2 hca hw1
      exact (ResLe.of_locals_eq h1).trans ((iha .none F1 ca oa F2 hca hw1).trans (ihb .none F2 cb ob F3 hcb ffa.wf))
  | cmp op a b iha ihb =>
    intro m F code out F' h hw
    simp only [compile, bind, Option.bind_eq_some_iff, Prod.exists, pure, Option.some.injEq, Prod.mk.injEq] at h
    obtain ⟨res, F1, ha, r0, F1', hrt, ca, oa, F2, hca, ra, _, cb, ob, F3, hcb, rb, _, _, rfl, rfl⟩ := h
    obtain ⟨h1, h2, _⟩ := assignResult_spec ha
    have hw1 := hw.of_locals_eq h1 h2
    obtain ⟨t1, t2, _⟩ := resultOrTemp_spec hrt
    have hw1' := hw1.of_locals_eq t1 t2
    have ffa := compile_frame a .any F1' ca oa F2 hca hw1'
    exact (ResLe.of_locals_eq h1).trans ((ResLe.of_locals_eq t1).trans ((iha .any F1' ca oa F2 hca hw1').trans
      ((ihb .any F2 cb ob F3 hcb ffa.wf).trans (ResLe.of_locals_eq rfl))))
  | chain3 op1 op2 a b c iha ihb ihc =>
    intro m F code out F' h hw
    simp only [compile, bind, Option.bind_eq_some_iff, Prod.exists, pure, Option.some.injEq, Prod.mk.injEq] at h
    obtain ⟨res, F1, ha, r0, F1', hrt, ca, oa, F2, hca, ra, _, cb, ob, F3, hcb, rb, _, cc, oc, F4, hcc, rc, _, _, rfl, rfl⟩ := h
    obtain ⟨h1, h2, _⟩ := assignResult_spec ha
    have hw1 := hw.of_locals_eq h1 h2
    obtain ⟨t1, t2, _⟩ := resultOrTemp_spec hrt
    have hw1' := hw1.of_locals_eq t1 t2
    have ffa := compile_frame a .any F1' ca oa F2 hca hw1'
    have ffb := compile_frame b .any F2 cb ob F3 hcb ffa.wf
    exact (ResLe.of_locals_eq h1).trans ((ResLe.of_locals_eq t1).trans ((iha .any F1' ca oa F2 hca hw1').trans
      ((ihb .any F2 cb ob F3 hcb ffa.wf).trans ((ihc .any F3 cc oc F4 hcc ffb.wf).trans (ResLe.of_locals_eq rfl)))))
  | and a b iha ihb | or a b iha ihb =>
    intro m F code out F' h hw
    simp only [compile, bind, Option.bind_eq_some_iff, Prod.exists, pure, Option.some.injEq, Prod.mk.injEq] at h
    obtain ⟨res, F1, ha, reg, F2, hrt, ca, oa, F3, hca, cb, ob, F4, hcb, F5, hp, _, rfl, rfl⟩ := h
    obtain ⟨h1, h2, _⟩ := assignResult_spec ha
    have hw1 := hw.of_locals_eq h1 h2
    obtain ⟨t1, t2, _⟩ := resultOrTemp_spec hrt
    have hw2 := hw1.of_locals_eq t1 t2
    have ffa := compile_frame a (.fixed reg) F2 ca oa F3 hca hw2
    obtain ⟨p1, _⟩ := popIf_spec hp
    exact (ResLe.of_locals_eq h1).trans ((ResLe.of_locals_eq t1).trans ((iha (.fixed reg) F2 ca oa F3 hca hw2).trans
      ((ihb (.fixed reg) F3 cb ob F4 hcb ffa.wf).trans (ResLe.of_locals_eq p1))))
  | assign x e ih =>
    intro m F code out F' h hw
    simp only [compile, bind, Option.bind_eq_some_iff, Prod.exists, pure, Option.some.injEq, Prod.mk.injEq] at h
    obtain ⟨rx, F1, hres, c, o, F2, hc, vr, hvr, F3, hcm, _, hout, rfl⟩ := h
    obtain ⟨r1, r2, _⟩ := reserve_spec hw hres
    have ff := compile_frame e (.fixed rx) F1 c o F2 hc r2
    have so : o = ⟨some rx, false⟩ := ff.shape
    subst so
    simp only [Option.some.injEq] at hvr
    subst hvr
    simp only [commitIf, Bool.false_eq_true, if_false] at hcm
    intro k y hk
    obtain ⟨hne, hk2⟩ := commit_reserved (ff.le.named _ _ r1) hcm k y hk
    have hk1 := ih (.fixed rx) F1 c _ F2 hc r2 k y hk2
    rcases reserve_reserved hres k y hk1 with h0 | h0
    · exact absurd h0 hne
    · exact h0
  | compound op x e ih =>
    intro m F code out F' h hw
    simp only [compile, bind, Option.bind_eq_some_iff, Prod.exists, pure, Option.some.injEq, Prod.mk.injEq] at h
    obtain ⟨res, F1, ha, cr, orr, F2, hc, rr, _, rl, _, F5, hp, _, rfl, rfl⟩ := h
    obtain ⟨h1, h2, _⟩ := assignResult_spec ha
    have hw1 := hw.of_locals_eq h1 h2
    obtain ⟨p1, _⟩ := popIf_spec hp
    exact (ResLe.of_locals_eq h1).trans ((ih .any F1 cr orr F2 hc hw1).trans (ResLe.of_locals_eq p1))
  | seq a b iha ihb =>
    intro m F code out F' h hw
    simp only [compile, bind, Option.bind_eq_some_iff, Prod.exists, pure, Option.some.injEq, Prod.mk.injEq] at h
    obtain ⟨ca, oa, F1, hca, cb, o, F2, hcb, _, rfl, rfl⟩ := h
    have ffa := compile_frame a .none F ca oa F1 hca hw
    exact (iha .none F ca oa F1 hca hw).trans (ihb m F1 cb o F2 hcb ffa.wf)
  | ite c t e ihc iht ihe =>
    intro m F code out F' h hw
    simp only [compile, bind, Option.bind_eq_some_iff, Prod.exists, pure, Option.some.injEq, Prod.mk.injEq] at h
    obtain ⟨res, F1, ha, cc, oc, F2, hcc, rc, _, F3, hp, ct, ot, F4, hct, ce, oe, F5, hce, _, rfl, rfl⟩ := h
    obtain ⟨h1, h2, _⟩ := assignResult_spec ha
    have hw1 := hw.of_locals_eq h1 h2
    have ffc := compile_frame c .any F1 cc oc F2 hcc hw1
    obtain ⟨p1, p2, _⟩ := popIf_spec hp
    have hw3 := ffc.wf.of_locals_eq p1 p2
    have fft := compile_frame t (branchMode res.reg) F3 ct ot F4 hct hw3
    exact (ResLe.of_locals_eq h1).trans ((ihc .any F1 cc oc F2 hcc hw1).trans ((ResLe.of_locals_eq p1).trans
      ((iht _ F3 ct ot F4 hct hw3).trans (ihe _ F4 ce oe F5 hce fft.wf))))
  | ifThen c t ihc iht =>
    intro m F code out F' h hw
    simp only [compile, bind, Option.bind_eq_some_iff, Prod.exists, pure, Option.some.injEq, Prod.mk.injEq] at h
    obtain ⟨res, F1, ha, cc, oc, F2, hcc, rc, _, F3, hp, ct, ot, F4, hct, _, rfl, rfl⟩ := h
    obtain ⟨h1, h2, _⟩ := assignResult_spec ha
    have hw1 := hw.of_locals_eq h1 h2
    have ffc := compile_frame c .any F1 cc oc F2 hcc hw1
    obtain ⟨p1, p2, _⟩ := popIf_spec hp
    have hw3 := ffc.wf.of_locals_eq p1 p2
    exact (ResLe.of_locals_eq h1).trans ((ihc .any F1 cc oc F2 hcc hw1).trans ((ResLe.of_locals_eq p1).trans
      (iht _ F3 ct ot F4 hct hw3)))

/-! ## replaying a compilation in a larger frame -/

/-- `G1` has the locals and the temporary base of `G` -/
def SameLoc (G G1 : Frame) : Prop := G1.locals = G.locals ∧ G1.tb = G.tb

theorem SameLoc.refl (G : Frame) : SameLoc G G := ⟨rfl, rfl⟩

theorem SameLoc.trans {A B C : Frame} (h1 : SameLoc A B) (h2 : SameLoc B C) : SameLoc A C :=
  ⟨by rw [h2.1, h1.1], by rw [h2.2, h1.2]⟩

theorem SameLoc.frameLe {G G1 : Frame} (h : SameLoc G G1) : FrameLe G G1 := FrameLe.of_locals_eq h.1 h.2

theorem SameLoc.wf {G G1 : Frame} (h : SameLoc G G1) (hw : WF G) : WF G1 := hw.of_locals_eq h.1 h.2

/-- the context facts of a replay, transported to a frame with the same locals and to an earlier
frame of the original compilation -/
theorem stable_ctx {G G1 A B : Frame} (hw : WF G) (hn : NoRes G) (hle : FrameLe B G) (hAB : FrameLe A B)
    (hs : SameLoc G G1) : WF G1 ∧ NoRes G1 ∧ FrameLe A G1 :=
  ⟨hs.wf hw, hn.of_locals_eq hs.1, (hAB.trans hle).trans hs.frameLe⟩

theorem pushReg_sim {F F1 G : Frame} {r : Reg} (h : F.pushReg = some (r, F1)) (htb : G.tb = F.tb)
    (htc : G.tc = F.tc) : ∃ G1, G.pushReg = some (r, G1) ∧ SameLoc G G1 ∧ G1.tc = F1.tc := by
  unfold Frame.pushReg at h ⊢
  simp only at h ⊢
  split at h
  · cases h
  · rename_i hlt
    cases h
    have hlt' : ¬ (G.tb + G.tc ≥ 255) := by rw [htb, htc]; exact hlt
    simp only [hlt', if_false]
    refine ⟨{ G with tc := G.tc + 1, tmax := max G.tmax (G.tc + 1) }, by rw [htb, htc], ⟨rfl, rfl⟩, ?_⟩
    simp only [htc]

theorem assignResult_sim {m : Mode} {F F1 G : Frame} {res : Out} (h : assignResult m F = some (res, F1))
    (htb : G.tb = F.tb) (htc : G.tc = F.tc) :
    ∃ G1, assignResult m G = some (res, G1) ∧ SameLoc G G1 ∧ G1.tc = F1.tc := by
  unfold assignResult at h ⊢
  cases m with
  | fixed r => simp at h; obtain ⟨rfl, rfl⟩ := h; exact ⟨G, rfl, SameLoc.refl _, htc⟩
  | none => simp at h; obtain ⟨rfl, rfl⟩ := h; exact ⟨G, rfl, SameLoc.refl _, htc⟩
  | any =>
    simp only [Option.map_eq_some_iff, Prod.exists] at h
    obtain ⟨r, F2, hp, h⟩ := h
    simp only [Prod.mk.injEq] at h
    obtain ⟨rfl, rfl⟩ := h
    obtain ⟨G1, g1, g2, g3⟩ := pushReg_sim hp htb htc
    exact ⟨G1, by simp [g1], g2, g3⟩

theorem popIf_sim {b : Bool} {F F1 G : Frame} (h : popIf b F = some F1) (htc : G.tc = F.tc) :
    ∃ G1, popIf b G = some G1 ∧ SameLoc G G1 ∧ G1.tc = F1.tc := by
  unfold popIf at h ⊢
  cases b with
  | false => simp at h; subst h; exact ⟨G, by simp, SameLoc.refl _, htc⟩
  | true =>
    simp only [if_true] at h ⊢
    unfold Frame.popReg at h ⊢
    split at h
    · cases h
    · rename_i hne
      cases h
      have hne' : ¬ (G.tc = 0) := by rw [htc]; exact hne
      simp only [hne', if_false]
      refine ⟨{ G with tc := G.tc - 1 }, rfl, ⟨rfl, rfl⟩, ?_⟩
      simp only [htc]

theorem resultOrTemp_sim {res : Out} {F F1 G : Frame} {reg : Reg} (h : resultOrTemp res F = some (reg, F1))
    (htb : G.tb = F.tb) (htc : G.tc = F.tc) :
    ∃ G1, resultOrTemp res G = some (reg, G1) ∧ SameLoc G G1 ∧ G1.tc = F1.tc := by
  unfold resultOrTemp at h ⊢
  cases hr : res.reg with
  | some r => simp [hr] at h; obtain ⟨rfl, rfl⟩ := h; exact ⟨G, rfl, SameLoc.refl _, htc⟩
  | none => simp only [hr] at h ⊢; exact pushReg_sim h htb htc

theorem getAssigned_sim {F G : Frame} {x : VarId} {r : Reg} (h : F.getAssigned x = some r)
    (hle : FrameLe F G) (hw : WF G) : G.getAssigned x = some r :=
  has_getAssigned hw (hle.has _ _ (getAssigned_has h))

theorem reserve_sim {G : Frame} {x : VarId} {rx : Reg} (hn : Named G rx x) (hw : WF G) :
    G.reserve x = some (rx, G) := by
  unfold Frame.reserve
  cases hg : G.getAssignedOrReserved x with
  | some r0 =>
    have := hw.uniq r0 rx x (getAOR_named hg) hn
    subst this
    rfl
  | none => exact absurd hn (getAOR_none hg rx)

theorem commit_sim {G : Frame} {x : VarId} {rx : Reg} (h : Has G rx x) : G.commit rx = some G := by
  unfold Frame.commit
  unfold Has at h
  simp [h]

theorem compile_stable : ∀ (e : Expr) (m : Mode) (F : Frame) (code : Code) (out : Out) (F' : Frame),
    compile e m F = some (code, out, F') → WF F →
    ∀ G, WF G → NoRes G → FrameLe F' G → G.tc = F.tc →
      ∃ G', compile e m G = some (code, out, G') ∧ SameLoc G G' ∧ G'.tc = F'.tc := by
  intro e
  induction e with
  | null | bool _ | int _ =>
    intro m F code out F' h hw G hwG hnG hle htc
    simp only [compile, bind, Option.bind_eq_some_iff, Prod.exists, pure, Option.some.injEq, Prod.mk.injEq] at h
    obtain ⟨res, F1, ha, rfl, rfl, rfl⟩ := h
    obtain ⟨h1, h2, _⟩ := assignResult_spec ha
    have htb : G.tb = F.tb := by rw [hle.tb, h2]
    obtain ⟨G1, ga, gs1, gt1⟩ := assignResult_sim ha htb htc
    exact ⟨G1, by simp [compile, ga], gs1, gt1⟩
  | var x =>
    intro m F code out F' h hw G hwG hnG hle htc
    simp only [compile] at h
    cases hg : F.getAssigned x with
    | none => simp [hg] at h
    | some rx =>
      simp only [hg] at h
      cases m <;>
        (simp at h; obtain ⟨rfl, rfl, rfl⟩ := h
         exact ⟨G, by simp [compile, getAssigned_sim hg hle hwG], SameLoc.refl _, htc⟩)
  | un op e ih =>
    intro m F code out F' h hw G hwG hnG hle htc
    simp only [compile, bind, Option.bind_eq_some_iff, Prod.exists, pure, Option.some.injEq, Prod.mk.injEq] at h
    obtain ⟨res, F1, ha, c, o, F2, hc, vr, hvr, F3, hp, rfl, rfl, rfl⟩ := h
    obtain ⟨h1, h2, _⟩ := assignResult_spec ha
    have hw1 := hw.of_locals_eq h1 h2
    have ff := compile_frame e .any F1 c o F2 hc hw1
    obtain ⟨p1, p2, _⟩ := popIf_spec hp
    have htb : G.tb = F.tb := by rw [hle.tb, p2, ff.le.tb, h2]
    obtain ⟨G1, ga, gs1, gt1⟩ := assignResult_sim ha htb htc
    obtain ⟨w1, n1, l1⟩ := stable_ctx hwG hnG hle (FrameLe.of_locals_eq p1 p2) gs1
    obtain ⟨G2, gc, gs2, gt2⟩ := ih .any F1 c o F2 hc hw1 G1 w1 n1 l1 gt1
    obtain ⟨G3, gp, gs3, gt3⟩ := popIf_sim hp gt2
    exact ⟨G3, by simp [compile, ga, gc, hvr, gp], gs1.trans (gs2.trans gs3), gt3⟩
  | bin op a b iha ihb =>
    intro m F code out F' h hw G hwG hnG hle htc
    simp only [compile, bind, Option.bind_eq_some_iff, Prod.exists] at h
    obtain ⟨res, F1, ha, h⟩ := h
    obtain ⟨h1, h2, _⟩ := assignResult_spec ha
    have hw1 := hw.of_locals_eq h1 h2
    cases hr : res.reg with
    | some r =>
      simp only [hr, Option.bind_eq_some_iff, Prod.exists, pure, Option.some.injEq, Prod.mk.injEq] at h
      obtain ⟨ca, oa, F2, hca, ra, hra, cb, ob, F3, hcb, rb, hrb, F4, hp1, F5, hp2, rfl, rfl, rfl⟩ := h
      have ffa := compile_frame a .any F1 ca oa F2 hca hw1
      have ffb := compile_frame b .any F2 cb ob F3 hcb ffa.wf
      obtain ⟨p1, p2, _⟩ := popIf_spec hp1
      obtain ⟨q1, q2, _⟩ := popIf_spec hp2
      have le35 : FrameLe F3 F5 := (FrameLe.of_locals_eq p1 p2).trans (FrameLe.of_locals_eq q1 q2)
      have htb : G.tb = F.tb := by rw [hle.tb, le35.tb, ffb.le.tb, ffa.le.tb, h2]
      obtain ⟨G1, ga, gs1, gt1⟩ := assignResult_sim ha htb htc
      obtain ⟨w1, n1, l1⟩ := stable_ctx hwG hnG hle (ffb.le.trans le35) gs1
      obtain ⟨G2, gca, gs2, gt2⟩ := iha .any F1 ca oa F2 hca hw1 G1 w1 n1 l1 gt1
      obtain ⟨w2, n2, l2⟩ := stable_ctx hwG hnG hle le35 (gs1.trans gs2)
      obtain ⟨G3, gcb, gs3, gt3⟩ := ihb .any F2 cb ob F3 hcb ffa.wf G2 w2 n2 l2 gt2
      obtain ⟨G4, gp1, gs4, gt4⟩ := popIf_sim hp1 gt3
      obtain ⟨G5, gp2, gs5, gt5⟩ := popIf_sim hp2 gt4
      exact ⟨G5, by simp [compile, ga, hr, gca, hra, gcb, hrb, gp1, gp2],
        gs1.trans (gs2.trans (gs3.trans (gs4.trans gs5))), gt5⟩
    | none =>
      simp only [hr, Option.bind_eq_some_iff, Prod.exists, pure, Option.some.injEq, Prod.mk.injEq] at h
      obtain ⟨ca, oa, F2, hca, cb, ob, F3, hcb, rfl, rfl, rfl⟩ := h
      have ffa := compile_frame a .none F1 ca oa F2 hca hw1
      have ffb := compile_frame b .none F2 cb ob F3 hcb ffa.wf
      have htb : G.tb = F.tb := by rw [hle.tb, ffb.le.tb, ffa.le.tb, h2]
      obtain ⟨G1, ga, gs1, gt1⟩ := assignResult_sim ha htb htc
      obtain ⟨w1, n1, l1⟩ := stable_ctx hwG hnG hle ffb.le gs1
      obtain ⟨G2, gca, gs2, gt2⟩ := iha .none F1 ca oa F2 hca hw1 G1 w1 n1 l1 gt1
      obtain ⟨w2, n2, l2⟩ := stable_ctx hwG hnG hle (FrameLe.refl _) (gs1.trans gs2)
      obtain ⟨G3, gcb, gs3, gt3⟩ := ihb .none F2 cb ob F3 hcb ffa.wf G2 w2 n2 l2 gt2
      exact ⟨G3, by simp [compile, ga, hr, gca, gcb], gs1.trans (gs2.trans gs3), gt3⟩
  | cmp op a b iha ihb =>
    intro m F code out F' h hw G hwG hnG hle htc
    simp only [compile, bind, Option.bind_eq_some_iff, Prod.exists, pure, Option.some.injEq, Prod.mk.injEq] at h
    obtain ⟨res, F1, ha, r0, F1', hrt, ca, oa, F2, hca, ra, hra, cb, ob, F3, hcb, rb, hrb, rfl, rfl, rfl⟩ := h
    obtain ⟨h1, h2, _⟩ := assignResult_spec ha
    have hw1 := hw.of_locals_eq h1 h2
    obtain ⟨t1, t2, _⟩ := resultOrTemp_spec hrt
    have hw1' := hw1.of_locals_eq t1 t2
    have ffa := compile_frame a .any F1' ca oa F2 hca hw1'
    have ffb := compile_frame b .any F2 cb ob F3 hcb ffa.wf
    have le3 : FrameLe F3 { F3 with tc := F1.tc } := FrameLe.of_locals_eq rfl rfl
    have htb : G.tb = F.tb := by rw [hle.tb, le3.tb, ffb.le.tb, ffa.le.tb, t2, h2]
    obtain ⟨G1, ga, gs1, gt1⟩ := assignResult_sim ha htb htc
    obtain ⟨G1', grt, gs1', gt1'⟩ := resultOrTemp_sim hrt (by rw [gs1.2, htb, h2]) gt1
    obtain ⟨w1, n1, l1⟩ := stable_ctx hwG hnG hle (ffb.le.trans le3) (gs1.trans gs1')
    obtain ⟨G2, gca, gs2, gt2⟩ := iha .any F1' ca oa F2 hca hw1' G1' w1 n1 l1 gt1'
    obtain ⟨w2, n2, l2⟩ := stable_ctx hwG hnG hle le3 (gs1.trans (gs1'.trans gs2))
    obtain ⟨G3, gcb, gs3, gt3⟩ := ihb .any F2 cb ob F3 hcb ffa.wf G2 w2 n2 l2 gt2
    refine ⟨{ G3 with tc := G1.tc }, by simp [compile, ga, grt, gca, hra, gcb, hrb], ?_, gt1⟩
    exact gs1.trans (gs1'.trans (gs2.trans (gs3.trans ⟨rfl, rfl⟩)))
  | chain3 op1 op2 a b c iha ihb ihc =>
    intro m F code out F' h hw G hwG hnG hle htc
    simp only [compile, bind, Option.bind_eq_some_iff, Prod.exists, pure, Option.some.injEq, Prod.mk.injEq] at h
    obtain ⟨res, F1, ha, r0, F1', hrt, ca, oa, F2, hca, ra, hra, cb, ob, F3, hcb, rb, hrb, cc, oc, F4, hcc, rc, hrc, rfl, rfl, rfl⟩ := h
    obtain ⟨h1, h2, _⟩ := assignResult_spec ha
    have hw1 := hw.of_locals_eq h1 h2
    obtain ⟨t1, t2, _⟩ := resultOrTemp_spec hrt
    have hw1' := hw1.of_locals_eq t1 t2
    have ffa := compile_frame a .any F1' ca oa F2 hca hw1'
    have ffb := compile_frame b .any F2 cb ob F3 hcb ffa.wf
    have ffc := compile_frame c .any F3 cc oc F4 hcc ffb.wf
    have le4 : FrameLe F4 { F4 with tc := F1.tc } := FrameLe.of_locals_eq rfl rfl
    have htb : G.tb = F.tb := by rw [hle.tb, le4.tb, ffc.le.tb, ffb.le.tb, ffa.le.tb, t2, h2]
    obtain ⟨G1, ga, gs1, gt1⟩ := assignResult_sim ha htb htc
    obtain ⟨G1', grt, gs1', gt1'⟩ := resultOrTemp_sim hrt (by rw [gs1.2, htb, h2]) gt1
    obtain ⟨w1, n1, l1⟩ := stable_ctx hwG hnG hle (ffb.le.trans (ffc.le.trans le4)) (gs1.trans gs1')
    obtain ⟨G2, gca, gs2, gt2⟩ := iha .any F1' ca oa F2 hca hw1' G1' w1 n1 l1 gt1'
    obtain ⟨w2, n2, l2⟩ := stable_ctx hwG hnG hle (ffc.le.trans le4) (gs1.trans (gs1'.trans gs2))
    obtain ⟨G3, gcb, gs3, gt3⟩ := ihb .any F2 cb ob F3 hcb ffa.wf G2 w2 n2 l2 gt2
    obtain ⟨w3, n3, l3⟩ := stable_ctx hwG hnG hle le4 (gs1.trans (gs1'.trans (gs2.trans gs3)))
    obtain ⟨G4, gcc, gs4, gt4⟩ := ihc .any F3 cc oc F4 hcc ffb.wf G3 w3 n3 l3 gt3
    refine ⟨{ G4 with tc := G1.tc }, by simp [compile, ga, grt, gca, hra, gcb, hrb, gcc, hrc], ?_, gt1⟩
    exact gs1.trans (gs1'.trans (gs2.trans (gs3.trans (gs4.trans ⟨rfl, rfl⟩))))
  | and a b iha ihb | or a b iha ihb =>
    intro m F code out F' h hw G hwG hnG hle htc
    simp only [compile, bind, Option.bind_eq_some_iff, Prod.exists, pure, Option.some.injEq, Prod.mk.injEq] at h
    obtain ⟨res, F1, ha, reg, F2, hrt, ca, oa, F3, hca, cb, ob, F4, hcb, F5, hp, rfl, rfl, rfl⟩ := h
    obtain ⟨h1, h2, _⟩ := assignResult_spec ha
    have hw1 := hw.of_locals_eq h1 h2
    obtain ⟨t1, t2, _⟩ := resultOrTemp_spec hrt
    have hw2 := hw1.of_locals_eq t1 t2
    have ffa := compile_frame a (.fixed reg) F2 ca oa F3 hca hw2
    have ffb := compile_frame b (.fixed reg) F3 cb ob F4 hcb ffa.wf
    obtain ⟨p1, p2, _⟩ := popIf_spec hp
    have le45 : FrameLe F4 F5 := FrameLe.of_locals_eq p1 p2
    have htb : G.tb = F.tb := by rw [hle.tb, le45.tb, ffb.le.tb, ffa.le.tb, t2, h2]
    obtain ⟨G1, ga, gs1, gt1⟩ := assignResult_sim ha htb htc
    obtain ⟨G2, grt, gs2, gt2⟩ := resultOrTemp_sim hrt (by rw [gs1.2, htb, h2]) gt1
    obtain ⟨w1, n1, l1⟩ := stable_ctx hwG hnG hle (ffb.le.trans le45) (gs1.trans gs2)
    obtain ⟨G3, gca, gs3, gt3⟩ := iha (.fixed reg) F2 ca oa F3 hca hw2 G2 w1 n1 l1 gt2
    obtain ⟨w2, n2, l2⟩ := stable_ctx hwG hnG hle le45 (gs1.trans (gs2.trans gs3))
    obtain ⟨G4, gcb, gs4, gt4⟩ := ihb (.fixed reg) F3 cb ob F4 hcb ffa.wf G3 w2 n2 l2 gt3
    obtain ⟨G5, gp, gs5, gt5⟩ := popIf_sim hp gt4
    exact ⟨G5, by simp [compile, ga, grt, gca, gcb, gp], gs1.trans (gs2.trans (gs3.trans (gs4.trans gs5))), gt5⟩
  | assign x e ih =>
    intro m F code out F' h hw G hwG hnG hle htc
    simp only [compile, bind, Option.bind_eq_some_iff, Prod.exists, pure, Option.some.injEq, Prod.mk.injEq] at h
    obtain ⟨rx, F1, hres, c, o, F2, hc, vr, hvr, F3, hcm, rfl, rfl, rfl⟩ := h
    obtain ⟨r1, r2, r3, r4, _, _⟩ := reserve_spec hw hres
    have ff := compile_frame e (.fixed rx) F1 c o F2 hc r2
    have so : o = ⟨some rx, false⟩ := ff.shape
    subst so
    simp only [Option.some.injEq] at hvr
    subst hvr
    simp only [commitIf, Bool.false_eq_true, if_false] at hcm
    obtain ⟨_, _, c3, c4, c5, c6, _⟩ := commit_spec ff.wf (ff.le.named _ _ r1) hcm
    have le23 : FrameLe F2 F3 := ⟨c3, c5, c6⟩
    have hnG' : Named G rx x := hle.named _ _ (le23.named _ _ (ff.le.named _ _ r1))
    have gres := reserve_sim hnG' hwG
    obtain ⟨G2, gc, gs2, gt2⟩ := ih (.fixed rx) F1 c _ F2 hc r2 G hwG hnG (le23.trans hle) (by rw [htc, r4])
    have hhas : Has G2 rx x := gs2.frameLe.has _ _ (hnG.has hnG')
    refine ⟨G2, ?_, gs2, by rw [gt2, c4]⟩
    simp [compile, gres, gc, commitIf, commit_sim hhas]
  | compound op x e ih =>
    intro m F code out F' h hw G hwG hnG hle htc
    simp only [compile, bind, Option.bind_eq_some_iff, Prod.exists, pure, Option.some.injEq, Prod.mk.injEq] at h
    obtain ⟨res, F1, ha, cr, orr, F2, hc, rr, hrr, rl, hrl, F5, hp, rfl, rfl, rfl⟩ := h
    obtain ⟨h1, h2, _⟩ := assignResult_spec ha
    have hw1 := hw.of_locals_eq h1 h2
    have ff := compile_frame e .any F1 cr orr F2 hc hw1
    obtain ⟨p1, p2, _⟩ := popIf_spec hp
    have le25 : FrameLe F2 F5 := FrameLe.of_locals_eq p1 p2
    have htb : G.tb = F.tb := by rw [hle.tb, le25.tb, ff.le.tb, h2]
    obtain ⟨G1, ga, gs1, gt1⟩ := assignResult_sim ha htb htc
    obtain ⟨w1, n1, l1⟩ := stable_ctx hwG hnG hle le25 gs1
    obtain ⟨G2, gc, gs2, gt2⟩ := ih .any F1 cr orr F2 hc hw1 G1 w1 n1 l1 gt1
    obtain ⟨w2, _, l2⟩ := stable_ctx hwG hnG hle le25 (gs1.trans gs2)
    have grl := getAssigned_sim hrl l2 w2
    obtain ⟨G5, gp, gs5, gt5⟩ := popIf_sim hp gt2
    exact ⟨G5, by simp [compile, ga, gc, hrr, grl, gp], gs1.trans (gs2.trans gs5), gt5⟩
  | seq a b iha ihb =>
    intro m F code out F' h hw G hwG hnG hle htc
    simp only [compile, bind, Option.bind_eq_some_iff, Prod.exists, pure, Option.some.injEq, Prod.mk.injEq] at h
    obtain ⟨ca, oa, F1, hca, cb, o, F2, hcb, rfl, rfl, rfl⟩ := h
    have ffa := compile_frame a .none F ca oa F1 hca hw
    have ffb := compile_frame b m F1 cb o F2 hcb ffa.wf
    obtain ⟨G1, gca, gs1, gt1⟩ := iha .none F ca oa F1 hca hw G hwG hnG (ffb.le.trans hle) htc
    obtain ⟨w1, n1, l1⟩ := stable_ctx hwG hnG hle (FrameLe.refl _) gs1
    obtain ⟨G2, gcb, gs2, gt2⟩ := ihb m F1 cb o F2 hcb ffa.wf G1 w1 n1 l1 gt1
    exact ⟨G2, by simp [compile, gca, gcb], gs1.trans gs2, gt2⟩
  | ite c t e ihc iht ihe =>
    intro m F code out F' h hw G hwG hnG hle htc
    simp only [compile, bind, Option.bind_eq_some_iff, Prod.exists, pure, Option.some.injEq, Prod.mk.injEq] at h
    obtain ⟨res, F1, ha, cc, oc, F2, hcc, rc, hrc, F3, hp, ct, ot, F4, hct, ce, oe, F5, hce, rfl, rfl, rfl⟩ := h
    obtain ⟨h1, h2, _⟩ := assignResult_spec ha
    have hw1 := hw.of_locals_eq h1 h2
    have ffc := compile_frame c .any F1 cc oc F2 hcc hw1
    obtain ⟨p1, p2, _⟩ := popIf_spec hp
    have hw3 := ffc.wf.of_locals_eq p1 p2
    have fft := compile_frame t (branchMode res.reg) F3 ct ot F4 hct hw3
    have ffe := compile_frame e (branchMode res.reg) F4 ce oe F5 hce fft.wf
    have le23 : FrameLe F2 F3 := FrameLe.of_locals_eq p1 p2
    have htb : G.tb = F.tb := by rw [hle.tb, ffe.le.tb, fft.le.tb, p2, ffc.le.tb, h2]
    obtain ⟨G1, ga, gs1, gt1⟩ := assignResult_sim ha htb htc
    obtain ⟨w1, n1, l1⟩ := stable_ctx hwG hnG hle (le23.trans (fft.le.trans ffe.le)) gs1
    obtain ⟨G2, gcc, gs2, gt2⟩ := ihc .any F1 cc oc F2 hcc hw1 G1 w1 n1 l1 gt1
    obtain ⟨G3, gp, gs3, gt3⟩ := popIf_sim hp gt2
    obtain ⟨w3, n3, l3⟩ := stable_ctx hwG hnG hle ffe.le (gs1.trans (gs2.trans gs3))
    obtain ⟨G4, gct, gs4, gt4⟩ := iht _ F3 ct ot F4 hct hw3 G3 w3 n3 l3 gt3
    obtain ⟨w4, n4, l4⟩ := stable_ctx hwG hnG hle (FrameLe.refl _) (gs1.trans (gs2.trans (gs3.trans gs4)))
    obtain ⟨G5, gce, gs5, gt5⟩ := ihe _ F4 ce oe F5 hce fft.wf G4 w4 n4 l4 gt4
    exact ⟨G5, by simp [compile, ga, gcc, hrc, gp, gct, gce],
      gs1.trans (gs2.trans (gs3.trans (gs4.trans gs5))), gt5⟩
  | ifThen c t ihc iht =>
    intro m F code out F' h hw G hwG hnG hle htc
    simp only [compile, bind, Option.bind_eq_some_iff, Prod.exists, pure, Option.some.injEq, Prod.mk.injEq] at h
    obtain ⟨res, F1, ha, cc, oc, F2, hcc, rc, hrc, F3, hp, ct, ot, F4, hct, rfl, rfl, rfl⟩ := h
    obtain ⟨h1, h2, _⟩ := assignResult_spec ha
    have hw1 := hw.of_locals_eq h1 h2
    have ffc := compile_frame c .any F1 cc oc F2 hcc hw1
    obtain ⟨p1, p2, _⟩ := popIf_spec hp
    have hw3 := ffc.wf.of_locals_eq p1 p2
    have fft := compile_frame t (branchMode res.reg) F3 ct ot F4 hct hw3
    have le23 : FrameLe F2 F3 := FrameLe.of_locals_eq p1 p2
    have htb : G.tb = F.tb := by rw [hle.tb, fft.le.tb, p2, ffc.le.tb, h2]
    obtain ⟨G1, ga, gs1, gt1⟩ := assignResult_sim ha htb htc
    obtain ⟨w1, n1, l1⟩ := stable_ctx hwG hnG hle (le23.trans fft.le) gs1
    obtain ⟨G2, gcc, gs2, gt2⟩ := ihc .any F1 cc oc F2 hcc hw1 G1 w1 n1 l1 gt1
    obtain ⟨G3, gp, gs3, gt3⟩ := popIf_sim hp gt2
    obtain ⟨w3, n3, l3⟩ := stable_ctx hwG hnG hle (FrameLe.refl _) (gs1.trans (gs2.trans gs3))
    obtain ⟨G4, gct, gs4, gt4⟩ := iht _ F3 ct ot F4 hct hw3 G3 w3 n3 l3 gt3
    exact ⟨G4, by simp [compile, ga, gcc, hrc, gp, gct], gs1.trans (gs2.trans (gs3.trans gs4)), gt4⟩

/-! ## the NewFrame register count only grows -/

/-- `temporaries_used_in_frame` only grows -/
def TmLe (F F' : Frame) : Prop := F.tmax ≤ F'.tmax

theorem TmLe.refl (F : Frame) : TmLe F F := Nat.le_refl _
theorem TmLe.trans {A B C : Frame} (h1 : TmLe A B) (h2 : TmLe B C) : TmLe A C := Nat.le_trans h1 h2
theorem TmLe.of_eq {F F' : Frame} (h : F'.tmax = F.tmax) : TmLe F F' := Nat.le_of_eq h.symm

theorem pushReg_tmax {F F1 : Frame} {r : Reg} (h : F.pushReg = some (r, F1)) : TmLe F F1 := by
  unfold Frame.pushReg at h
  simp only at h
  split at h
  · cases h
  · cases h; exact Nat.le_max_left _ _

theorem assignResult_tmax {m : Mode} {F F1 : Frame} {res : Out} (h : assignResult m F = some (res, F1)) :
    TmLe F F1 := by
  unfold assignResult at h
  cases m with
  | fixed r => simp at h; obtain ⟨_, rfl⟩ := h; exact TmLe.refl _
  | none => simp at h; obtain ⟨_, rfl⟩ := h; exact TmLe.refl _
  | any =>
    simp only [Option.map_eq_some_iff, Prod.exists] at h
    obtain ⟨r, F2, hp, h⟩ := h
    simp only [Prod.mk.injEq] at h
    obtain ⟨_, rfl⟩ := h
    exact pushReg_tmax hp

theorem popIf_tmax {b : Bool} {F F1 : Frame} (h : popIf b F = some F1) : TmLe F F1 := by
  unfold popIf at h
  cases b with
  | false => simp at h; subst h; exact TmLe.refl _
  | true =>
    simp only [if_true] at h
    unfold Frame.popReg at h
    split at h
    · cases h
    · cases h; exact TmLe.refl _

theorem resultOrTemp_tmax {res : Out} {F F1 : Frame} {reg : Reg} (h : resultOrTemp res F = some (reg, F1)) :
    TmLe F F1 := by
  unfold resultOrTemp at h
  cases hr : res.reg with
  | some r => simp [hr] at h; obtain ⟨_, rfl⟩ := h; exact TmLe.refl _
  | none => simp only [hr] at h; exact pushReg_tmax h

theorem reserve_tmax {F F1 : Frame} {x : VarId} {r : Reg} (h : F.reserve x = some (r, F1)) : TmLe F F1 := by
  unfold Frame.reserve at h
  cases hg : F.getAssignedOrReserved x with
  | some r0 => simp [hg] at h; obtain ⟨_, rfl⟩ := h; exact TmLe.refl _
  | none =>
    simp only [hg] at h
    split at h
    · cases h; exact TmLe.refl _
    · cases h

theorem commit_tmax {F F1 : Frame} {r : Reg} (h : F.commit r = some F1) : TmLe F F1 := by
  unfold Frame.commit at h
  split at h
  · cases h; exact TmLe.refl _
  · cases h; exact TmLe.refl _
  · cases h

theorem commitIf_tmax {o : Out} {vr : Reg} {F F1 : Frame} (h : commitIf o vr F = some F1) : TmLe F F1 := by
  unfold commitIf at h
  split at h
  · cases h; exact TmLe.refl _
  · exact commit_tmax h

theorem compile_tmax : ∀ (e : Expr) (m : Mode) (F : Frame) (code : Code) (out : Out) (F' : Frame),
    compile e m F = some (code, out, F') → TmLe F F' := by
  intro e
  induction e with
  | null | bool _ | int _ =>
    intro m F code out F' h
    simp only [compile, bind, Option.bind_eq_some_iff, Prod.exists, pure, Option.some.injEq, Prod.mk.injEq] at h
    obtain ⟨res, F1, ha, _, _, rfl⟩ := h
    exact assignResult_tmax ha
  | var x =>
    intro m F code out F' h
    simp only [compile] at h
    cases hg : F.getAssigned x with
    | none => simp [hg] at h
    | some rx =>
      simp only [hg] at h
      cases m <;> (simp at h; obtain ⟨_, _, rfl⟩ := h; exact TmLe.refl _)
  | un op e ih =>
    intro m F code out F' h
    simp only [compile, bind, Option.bind_eq_some_iff, Prod.exists, pure, Option.some.injEq, Prod.mk.injEq] at h
    obtain ⟨res, F1, ha, c, o, F2, hc, vr, _, F3, hp, _, _, rfl⟩ := h
    exact (assignResult_tmax ha).trans ((ih _ _ _ _ _ hc).trans (popIf_tmax hp))
  | bin op a b iha ihb =>
    intro m F code out F' h
    simp only [compile, bind, Option.bind_eq_some_iff, Prod.exists] at h
    obtain ⟨res, F1, ha, h⟩ := h
    cases hr : res.reg with
    | some r =>
      simp only [hr, Option.bind_eq_some_iff, Prod.exists, pure, Option.some.injEq, Prod.mk.injEq] at h
      obtain ⟨ca, oa, F2, hca, ra, _, cb, ob, F3, hcb, rb, _, F4, hp1, F5, hp2, _, _, rfl⟩ := h
      exact (assignResult_tmax ha).trans ((iha _ _ _ _ _ hca).trans ((ihb _ _ _ _ _ hcb).trans
        ((popIf_tmax hp1).trans (popIf_tmax hp2))))
    | none =>
      simp only [hr, Option.bind_eq_some_iff, Prod.exists, pure, Option.some.injEq, Prod.mk.injEq] at h
      obtain ⟨ca, oa, F2, hca, cb, ob, F3, hcb, _, _, rfl⟩ := h
      exact (assignResult_tmax ha).trans ((iha _ _ _ _ _ hca).trans (ihb _ _ _ _ _ hcb))
  | cmp op a b iha ihb =>
    intro m F code out F' h
    simp only [compile, bind, Option.bind_eq_some_iff, Prod.exists, pure, Option.some.injEq, Prod.mk.injEq] at h
    obtain ⟨res, F1, ha, r0, F1', hrt, ca, oa, F2, hca, ra, _, cb, ob, F3, hcb, rb, _, _, _, rfl⟩ := h
    exact (assignResult_tmax ha).trans ((resultOrTemp_tmax hrt).trans ((iha _ _ _ _ _ hca).trans
      ((ihb _ _ _ _ _ hcb).trans (TmLe.of_eq rfl))))
  | chain3 op1 op2 a b c iha ihb ihc =>
    intro m F code out F' h
    simp only [compile, bind, Option.bind_eq_some_iff, Prod.exists, pure, Option.some.injEq, Prod.mk.injEq] at h
    obtain ⟨res, F1, ha, r0, F1', hrt, ca, oa, F2, hca, ra, _, cb, ob, F3, hcb, rb, _, cc, oc, F4, hcc, rc, _, _, _, rfl⟩ := h
    exact (assignResult_tmax ha).trans ((resultOrTemp_tmax hrt).trans ((iha _ _ _ _ _ hca).trans
      ((ihb _ _ _ _ _ hcb).trans ((ihc _ _ _ _ _ hcc).trans (TmLe.of_eq rfl)))))
  | and a b iha ihb | or a b iha ihb =>
    intro m F code out F' h
    simp only [compile, bind, Option.bind_eq_some_iff, Prod.exists, pure, Option.some.injEq, Prod.mk.injEq] at h
    obtain ⟨res, F1, ha, reg, F2, hrt, ca, oa, F3, hca, cb, ob, F4, hcb, F5, hp, _, _, rfl⟩ := h
    exact (assignResult_tmax ha).trans ((resultOrTemp_tmax hrt).trans ((iha _ _ _ _ _ hca).trans
      ((ihb _ _ _ _ _ hcb).trans (popIf_tmax hp))))
  | assign x e ih =>
    intro m F code out F' h
    simp only [compile, bind, Option.bind_eq_some_iff, Prod.exists, pure, Option.some.injEq, Prod.mk.injEq] at h
    obtain ⟨rx, F1, hres, c, o, F2, hc, vr, _, F3, hcm, _, _, rfl⟩ := h
    exact (reserve_tmax hres).trans ((ih _ _ _ _ _ hc).trans (commitIf_tmax hcm))
  | compound op x e ih =>
    intro m F code out F' h
    simp only [compile, bind, Option.bind_eq_some_iff, Prod.exists, pure, Option.some.injEq, Prod.mk.injEq] at h
    obtain ⟨res, F1, ha, cr, orr, F2, hc, rr, _, rl, _, F5, hp, _, _, rfl⟩ := h
    exact (assignResult_tmax ha).trans ((ih _ _ _ _ _ hc).trans (popIf_tmax hp))
  | seq a b iha ihb =>
    intro m F code out F' h
    simp only [compile, bind, Option.bind_eq_some_iff, Prod.exists, pure, Option.some.injEq, Prod.mk.injEq] at h
    obtain ⟨ca, oa, F1, hca, cb, o, F2, hcb, _, _, rfl⟩ := h
    exact (iha _ _ _ _ _ hca).trans (ihb _ _ _ _ _ hcb)
  | ite c t e ihc iht ihe =>
    intro m F code out F' h
    simp only [compile, bind, Option.bind_eq_some_iff, Prod.exists, pure, Option.some.injEq, Prod.mk.injEq] at h
    obtain ⟨res, F1, ha, cc, oc, F2, hcc, rc, _, F3, hp, ct, ot, F4, hct, ce, oe, F5, hce, _, _, rfl⟩ := h
    exact (assignResult_tmax ha).trans ((ihc _ _ _ _ _ hcc).trans ((popIf_tmax hp).trans
      ((iht _ _ _ _ _ hct).trans (ihe _ _ _ _ _ hce))))
  | ifThen c t ihc iht =>
    intro m F code out F' h
    simp only [compile, bind, Option.bind_eq_some_iff, Prod.exists, pure, Option.some.injEq, Prod.mk.injEq] at h
    obtain ⟨res, F1, ha, cc, oc, F2, hcc, rc, _, F3, hp, ct, ot, F4, hct, _, _, rfl⟩ := h
    exact (assignResult_tmax ha).trans ((ihc _ _ _ _ _ hcc).trans ((popIf_tmax hp).trans (iht _ _ _ _ _ hct)))

end KotoVerif.Compile
