/-
C01 layer 5, loop layer: two more facts about the expression compiler's use of the compile-time
frame, needed because a loop body is compiled *once* but executed many times:

* `compile_resLe`  — `compile` leaves no reservation behind: every slot that is still `Reserved`
                     afterwards was `Reserved` before (`x = e` reserves, compiles `e`, commits);
* `compile_stable` — compiling the same expression again in a frame that already contains every
                     local the first compilation introduced (and has no pending reservation, the
                     same temporary base and the same number of live temporaries) emits the *same
                     code* with the *same output register* and does not change the locals.

Together: the code emitted for a loop body in the frame at loop entry is the code the compiler
would emit for it in the frame at the end of the body — the frame every later iteration runs in.
-/
import KotoVerif.Lemmas.C01FrameFacts
import KotoVerif.Model.CompileLoop

namespace KotoVerif.Compile

/-- no pending reservation -/
def NoRes (F : Frame) : Prop := ∀ (k : Nat) (x : VarId), F.locals[k]? ≠ some (Slot.reserved x)

/-- every slot reserved in `F'` was already reserved in `F` -/
def ResLe (F F' : Frame) : Prop :=
  ∀ (k : Nat) (x : VarId), F'.locals[k]? = some (Slot.reserved x) → F.locals[k]? = some (Slot.reserved x)

theorem ResLe.refl (F : Frame) : ResLe F F := fun _ _ h => h

theorem ResLe.trans {A B C : Frame} (h1 : ResLe A B) (h2 : ResLe B C) : ResLe A C :=
  fun k x h => h1 k x (h2 k x h)

theorem ResLe.of_locals_eq {F F' : Frame} (h : F'.locals = F.locals) : ResLe F F' :=
  fun k x hk => by rw [h] at hk; exact hk

theorem NoRes.of_resLe {F F' : Frame} (h : NoRes F) (hle : ResLe F F') : NoRes F' :=
  fun k x hk => h k x (hle k x hk)

theorem NoRes.of_locals_eq {F F' : Frame} (h : NoRes F) (h1 : F'.locals = F.locals) : NoRes F' :=
  h.of_resLe (ResLe.of_locals_eq h1)

theorem NoRes.has {F : Frame} (h : NoRes F) {k : Reg} {x : VarId} (hn : Named F k x) : Has F k x := by
  unfold Named at hn
  unfold Has
  cases hs : F.locals[k]? with
  | none => simp [hs] at hn
  | some s =>
    cases s with
    | allocated => simp [hs, Slot.id?] at hn
    | assigned y => simp [hs, Slot.id?] at hn; rw [hn]
    | reserved y => exact absurd hs (h k y)

/-- `reserve x` adds at most the slot it returns -/
theorem reserve_reserved {F F' : Frame} {x : VarId} {r : Reg} (h : F.reserve x = some (r, F')) :
    ∀ (k : Nat) (y : VarId), F'.locals[k]? = some (Slot.reserved y) → k = r ∨ F.locals[k]? = some (Slot.reserved y) := by
  intro k y hk
  unfold Frame.reserve at h
  cases hg : F.getAssignedOrReserved x with
  | some r0 =>
    simp [hg] at h
    obtain ⟨_, rfl⟩ := h
    exact Or.inr hk
  | none =>
    simp only [hg] at h
    split at h
    · cases h
      simp only at hk
      by_cases h1 : k < F.locals.length
      · rw [List.getElem?_append_left h1] at hk; exact Or.inr hk
      · by_cases h3 : k = F.locals.length
        · exact Or.inl h3
        · have : (F.locals ++ [Slot.reserved x])[k]? = none := List.getElem?_eq_none (by simp; omega)
          simp [this] at hk
    · cases h

/-- `commit r` turns slot `r` into `Assigned` and touches nothing else -/
theorem commit_reserved {F F' : Frame} {r : Reg} {x : VarId} (hn : Named F r x) (h : F.commit r = some F') :
    ∀ (k : Nat) (y : VarId), F'.locals[k]? = some (Slot.reserved y) → k ≠ r ∧ F.locals[k]? = some (Slot.reserved y) := by
  intro k y hk
  unfold Frame.commit at h
  have hlt := hn.lt
  cases hs : F.locals[r]? with
  | none => simp [hs] at h
  | some s =>
    cases s with
    | allocated => simp [hs] at h
    | assigned z =>
      simp [hs] at h
      subst h
      refine ⟨?_, hk⟩
      intro hkr; subst hkr; rw [hs] at hk; cases hk
    | reserved z =>
      simp [hs] at h
      subst h
      simp only at hk
      by_cases hkr : k = r
      · subst hkr
        rw [List.getElem?_set_self hlt] at hk
        cases hk
      · rw [List.getElem?_set_ne (Ne.symm hkr)] at hk
        exact ⟨hkr, hk⟩

theorem assignResult_locals {m : Mode} {F F1 : Frame} {res : Out} (h : assignResult m F = some (res, F1)) :
    F1.locals = F.locals := (assignResult_spec h).1

theorem compile_resLe : ∀ (e : Expr) (m : Mode) (F : Frame) (code : Code) (out : Out) (F' : Frame),
    compile e m F = some (code, out, F') → WF F → ResLe F F' := by
  intro e
  induction e with
  | null | bool _ | int _ =>
    intro m F code out F' h hw
    simp only [compile, bind, Option.bind_eq_some_iff, Prod.exists, pure, Option.some.injEq, Prod.mk.injEq] at h
    obtain ⟨res, F1, ha, _, rfl, rfl⟩ := h
    exact ResLe.of_locals_eq (assignResult_locals ha)
  | var x =>
    intro m F code out F' h hw
    simp only [compile] at h
    cases hg : F.getAssigned x with
    | none => simp [hg] at h
    | some rx =>
      simp only [hg] at h
      cases m <;> (simp at h; obtain ⟨_, _, rfl⟩ := h; exact ResLe.refl _)
  | un op e ih =>
    intro m F code out F' h hw
    simp only [compile, bind, Option.bind_eq_some_iff, Prod.exists, pure, Option.some.injEq, Prod.mk.injEq] at h
    obtain ⟨res, F1, ha, c, o, F2, hc, vr, _, F3, hp, _, rfl, rfl⟩ := h
    obtain ⟨h1, h2, _⟩ := assignResult_spec ha
    have hw1 := hw.of_locals_eq h1 h2
    obtain ⟨p1, _⟩ := popIf_spec hp
    exact (ResLe.of_locals_eq h1).trans ((ih .any F1 c o F2 hc hw1).trans (ResLe.of_locals_eq p1))
  | bin op a b iha ihb =>
    intro m F code out F' h hw
    simp only [compile, bind, Option.bind_eq_some_iff, Prod.exists] at h
    obtain ⟨res, F1, ha, h⟩ := h
    obtain ⟨h1, h2, _⟩ := assignResult_spec ha
    have hw1 := hw.of_locals_eq h1 h2
    cases hr : res.reg with
    | some r =>
      simp only [hr, Option.bind_eq_some_iff, Prod.exists, pure, Option.some.injEq, Prod.mk.injEq] at h
      obtain ⟨ca, oa, F2, hca, ra, _, cb, ob, F3, hcb, rb, _, F4, hp1, F5, hp2, _, rfl, rfl⟩ := h
      have ffa := compile_frame a .any F1 ca oa F2 hca hw1
      obtain ⟨p1, _⟩ := popIf_spec hp1
      obtain ⟨q1, _⟩ := popIf_spec hp2
      exact (ResLe.of_locals_eq h1).trans ((iha .any F1 ca oa F2 hca hw1).trans
        ((ihb .any F2 cb ob F3 hcb ffa.wf).trans ((ResLe.of_locals_eq p1).trans (ResLe.of_locals_eq q1))))
    | none =>
      simp only [hr, Option.bind_eq_some_iff, Prod.exists, pure, Option.some.injEq, Prod.mk.injEq] at h
      obtain ⟨ca, oa, F2, hca, cb, ob, F3, hcb, _, rfl, rfl⟩ := h
      have ffa := compile_frame a .none F1 ca oa F2 hca hw1
      exact (ResLe.of_locals_eq h1).trans ((iha .none F1 ca oa F2 hca hw1).trans (ihb .none F2 cb ob F3 hcb ffa.wf))
  | cmp op a b iha ihb =>
    intro m F code out F' h hw
    simp only [compile, bind, Option.bind_eq_some_iff, Prod.exists, pure, Option.some.injEq, Prod.mk.injEq] at h
    obtain ⟨res, F1, ha, r0, F1', hrt, ca, oa, F2, hca, ra, _, cb, ob, F3, hcb, rb, _, _, rfl, rfl⟩ := h
    obtain ⟨h1, h2, _⟩ := assignResult_spec ha
    have hw1 := hw.of_locals_eq h1 h2
    obtain ⟨t1, t2, _⟩ := resultOrTemp_spec hrt
    have hw1' := hw1.of_locals_eq t1 t2
    have ffa := compile_frame a .any F1' ca oa F2 hca hw1'
    exact (ResLe.of_locals_eq h1).trans ((ResLe.of_locals_eq t1).trans ((iha .any F1' ca oa F2 hca hw1').trans
      ((ihb .any F2 cb ob F3 hcb ffa.wf).trans (ResLe.of_locals_eq rfl))))
  | chain3 op1 op2 a b c iha ihb ihc =>
    intro m F code out F' h hw
    simp only [compile, bind, Option.bind_eq_some_iff, Prod.exists, pure, Option.some.injEq, Prod.mk.injEq] at h
    obtain ⟨res, F1, ha, r0, F1', hrt, ca, oa, F2, hca, ra, _, cb, ob, F3, hcb, rb, _, cc, oc, F4, hcc, rc, _, _, rfl, rfl⟩ := h
    obtain ⟨h1, h2, _⟩ := assignResult_spec ha
    have hw1 := hw.of_locals_eq h1 h2
    obtain ⟨t1, t2, _⟩ := resultOrTemp_spec hrt
    have hw1' := hw1.of_locals_eq t1 t2
    have ffa := compile_frame a .any F1' ca oa F2 hca hw1'
    have ffb := compile_frame b .any F2 cb ob F3 hcb ffa.wf
    exact (ResLe.of_locals_eq h1).trans ((ResLe.of_locals_eq t1).trans ((iha .any F1' ca oa F2 hca hw1').trans
      ((ihb .any F2 cb ob F3 hcb ffa.wf).trans ((ihc .any F3 cc oc F4 hcc ffb.wf).trans (ResLe.of_locals_eq rfl)))))
  | and a b iha ihb | or a b iha ihb =>
    intro m F code out F' h hw
    simp only [compile, bind, Option.bind_eq_some_iff, Prod.exists, pure, Option.some.injEq, Prod.mk.injEq] at h
    obtain ⟨res, F1, ha, reg, F2, hrt, ca, oa, F3, hca, cb, ob, F4, hcb, F5, hp, _, rfl, rfl⟩ := h
    obtain ⟨h1, h2, _⟩ := assignResult_spec ha
    have hw1 := hw.of_locals_eq h1 h2
    obtain ⟨t1, t2, _⟩ := resultOrTemp_spec hrt
    have hw2 := hw1.of_locals_eq t1 t2
    have ffa := compile_frame a (.fixed reg) F2 ca oa F3 hca hw2
    obtain ⟨p1, _⟩ := popIf_spec hp
    exact (ResLe.of_locals_eq h1).trans ((ResLe.of_locals_eq t1).trans ((iha (.fixed reg) F2 ca oa F3 hca hw2).trans
      ((ihb (.fixed reg) F3 cb ob F4 hcb ffa.wf).trans (ResLe.of_locals_eq p1))))
  | assign x e ih =>
    intro m F code out F' h hw
    simp only [compile, bind, Option.bind_eq_some_iff, Prod.exists, pure, Option.some.injEq, Prod.mk.injEq] at h
    obtain ⟨rx, F1, hres, c, o, F2, hc, vr, hvr, F3, hcm, _, hout, rfl⟩ := h
    obtain ⟨r1, r2, _⟩ := reserve_spec hw hres
    have ff := compile_frame e (.fixed rx) F1 c o F2 hc r2
    have so : o = ⟨some rx, false⟩ := ff.shape
    subst so
    simp only [Option.some.injEq] at hvr
    subst hvr
    simp only [commitIf, Bool.false_eq_true, if_false] at hcm
    intro k y hk
    obtain ⟨hne, hk2⟩ := commit_reserved (ff.le.named _ _ r1) hcm k y hk
    have hk1 := ih (.fixed rx) F1 c _ F2 hc r2 k y hk2
    rcases reserve_reserved hres k y hk1 with h0 | h0
    · exact absurd h0 hne
    · exact h0
  | compound op x e ih =>
    intro m F code out F' h hw
    simp only [compile, bind, Option.bind_eq_some_iff, Prod.exists, pure, Option.some.injEq, Prod.mk.injEq] at h
    obtain ⟨res, F1, ha, cr, orr, F2, hc, rr, _, rl, _, F5, hp, _, rfl, rfl⟩ := h
    obtain ⟨h1, h2, _⟩ := assignResult_spec ha
    have hw1 := hw.of_locals_eq h1 h2
    obtain ⟨p1, _⟩ := popIf_spec hp
    exact (ResLe.of_locals_eq h1).trans ((ih .any F1 cr orr F2 hc hw1).trans (ResLe.of_locals_eq p1))
  | seq a b iha ihb =>
    intro m F code out F' h hw
    simp only [compile, bind, Option.bind_eq_some_iff, Prod.exists, pure, Option.some.injEq, Prod.mk.injEq] at h
    obtain ⟨ca, oa, F1, hca, cb, o, F2, hcb, _, rfl, rfl⟩ := h
    have ffa := compile_frame a .none F ca oa F1 hca hw
    exact (iha .none F ca oa F1 hca hw).trans (ihb m F1 cb o F2 hcb ffa.wf)
  | ite c t e ihc iht ihe =>
    intro m F code out F' h hw
    simp only [compile, bind, Option.bind_eq_some_iff, Prod.exists, pure, Option.some.injEq, Prod.mk.injEq] at h
    obtain ⟨res, F1, ha, cc, oc, F2, hcc, rc, _, F3, hp, ct, ot, F4, hct, ce, oe, F5, hce, _, rfl, rfl⟩ := h
    obtain ⟨h1, h2, _⟩ := assignResult_spec ha
    have hw1 := hw.of_locals_eq h1 h2
    have ffc := compile_frame c .any F1 cc oc F2 hcc hw1
    obtain ⟨p1, p2, _⟩ := popIf_spec hp
    have hw3 := ffc.wf.of_locals_eq p1 p2
    have fft := compile_frame t (branchMode res.reg) F3 ct ot F4 hct hw3
    exact (ResLe.of_locals_eq h1).trans ((ihc .any F1 cc oc F2 hcc hw1).trans ((ResLe.of_locals_eq p1).trans
      ((iht _ F3 ct ot F4 hct hw3).trans (ihe _ F4 ce oe F5 hce fft.wf))))
  | ifThen c t ihc iht =>
    intro m F code out F' h hw
    simp only [compile, bind, Option.bind_eq_some_iff, Prod.exists, pure, Option.some.injEq, Prod.mk.injEq] at h
    obtain ⟨res, F1, ha, cc, oc, F2, hcc, rc, _, F3, hp, ct, ot, F4, hct, _, rfl, rfl⟩ := h
    obtain ⟨h1, h2, _⟩ := assignResult_spec ha
    have hw1 := hw.of_locals_eq h1 h2
    have ffc := compile_frame c .any F1 cc oc F2 hcc hw1
    obtain ⟨p1, p2, _⟩ := popIf_spec hp
    have hw3 := ffc.wf.of_locals_eq p1 p2
    exact (ResLe.of_locals_eq h1).trans ((ihc .any F1 cc oc F2 hcc hw1).trans ((ResLe.of_locals_eq p1).trans
      (iht _ F3 ct ot F4 hct hw3)))

end KotoVerif.Compile
