/-
C13 helper lemmas, part 6: `Cycle` (endless) and arbitrary call sequences on a built iterator.
-/
import KotoVerif.Lemmas.C13Lazy

namespace KotoVerif.Iter

theorem mod_succ_congr {a b m : Nat} (h : a % m = b % m) : (a + 1) % m = (b + 1) % m := by
  rw [Nat.add_mod a 1 m, Nat.add_mod b 1 m, h]

/-- `Cycle` at output position `j`: first it passes the input through while caching it (phase 1),
then it replays the cache round and round (phase 2). Either way the next `n` outputs are
`ys[(j + t) % len]` for `t = 0 … n-1`. -/
theorem cycle_gen (c : Co) (ys : List Val) (hne : ys ≠ []) :
    ∀ (n j : Nat) (st : Cyc c.σ),
      ((j ≤ ys.length ∧ st.cache = ys.take j ∧ st.idx = 0 ∧ Fwd c st.inner (ys.drop j)) ∨
       (st.cache = ys ∧ 1 ≤ st.idx ∧ st.idx ≤ ys.length ∧ st.idx % ys.length = j % ys.length ∧
        Fwd c st.inner [])) →
      outs (cycleCo c) n st = (List.range n).map (fun t => ys[(j + t) % ys.length]?) := by
  intro n
  induction n with
  | zero => intro j st _; rfl
  | succ n ih =>
    intro j st hinv
    have hlen : 0 < ys.length := List.length_pos_iff.mpr hne
    have hshift : (List.range n).map ((fun t => ys[(j + t) % ys.length]?) ∘ Nat.succ) =
        (List.range n).map (fun t => ys[(j + 1 + t) % ys.length]?) := by
      apply List.map_congr_left
      intro t _
      simp only [Function.comp]
      have : j + t.succ = j + 1 + t := by omega
      rw [this]
    rw [List.range_succ_eq_map]
    simp only [outs, List.map_cons, List.map_map, Nat.add_zero]
    rw [hshift]
    rcases hinv with ⟨hj, hc, hi, hf⟩ | ⟨hc, h1, h2, hm, hf⟩
    · by_cases hlt : j < ys.length
      · have hd : ys.drop j = ys[j] :: ys.drop (j + 1) := by simp
        rw [hd] at hf
        have ⟨f1, f2⟩ := fwd_cons.mp hf
        have e : (cycleCo c).next st =
            ⟨some ys[j], ⟨(c.next st.inner).st, st.cache ++ [ys[j]], st.idx⟩, (c.next st.inner).ev⟩ := by
          simp [cycleCo, f1]
        rw [e]
        simp only
        have htake : st.cache ++ [ys[j]] = ys.take (j + 1) := by
          rw [hc, List.take_add_one]; simp [hlt]
        rw [ih (j + 1) ⟨(c.next st.inner).st, st.cache ++ [ys[j]], st.idx⟩
          (Or.inl ⟨by omega, htake, hi, f2⟩)]
        congr 1
        simp [Nat.mod_eq_of_lt hlt, hlt]
      · have hjl : j = ys.length := by omega
        have hd : ys.drop j = [] := by simp; omega
        rw [hd] at hf
        have ⟨f1, f2⟩ := fwd_nil.mp hf
        have hcache : st.cache = ys := by rw [hc, hjl]; simp
        have hne' : st.cache.isEmpty = false := by
          rw [hcache]; cases ys with
          | nil => exact absurd rfl hne
          | cons _ _ => rfl
        have hi' : ¬ (0 = ys.length) := by omega
        have e : (cycleCo c).next st = ⟨ys[0]?, ⟨(c.next st.inner).st, ys, 1⟩, (c.next st.inner).ev⟩ := by
          simp [cycleCo, f1, hne', hi, hcache, hi', hne]
        rw [e]
        simp only
        rw [ih (j + 1) ⟨(c.next st.inner).st, ys, 1⟩ (Or.inr ⟨rfl, Nat.le_refl 1, hlen, ?_, f2⟩)]
        · congr 1
          rw [hjl, Nat.mod_self]
        · show 1 % ys.length = (j + 1) % ys.length
          rw [hjl]
          have : (0 + 1) % ys.length = (ys.length + 1) % ys.length :=
            mod_succ_congr (by rw [Nat.mod_self, Nat.zero_mod])
          simpa using this
    · have ⟨f1, f2⟩ := fwd_nil.mp hf
      have hne' : st.cache.isEmpty = false := by
        rw [hc]; cases ys with
        | nil => exact absurd rfl hne
        | cons _ _ => rfl
      by_cases hw : st.idx = ys.length
      · have e : (cycleCo c).next st = ⟨ys[0]?, ⟨(c.next st.inner).st, ys, 1⟩, (c.next st.inner).ev⟩ := by
          simp [cycleCo, f1, hne', hc, hw, hne]
        have hj0 : j % ys.length = 0 := by rw [← hm, hw, Nat.mod_self]
        rw [e]
        simp only
        rw [ih (j + 1) ⟨(c.next st.inner).st, ys, 1⟩ (Or.inr ⟨rfl, Nat.le_refl 1, hlen, ?_, f2⟩)]
        · congr 1
          rw [hj0]
        · show 1 % ys.length = (j + 1) % ys.length
          have : (0 + 1) % ys.length = (j + 1) % ys.length :=
            mod_succ_congr (by rw [Nat.zero_mod, hj0])
          simpa using this
      · have hlt : st.idx < ys.length := by omega
        have e : (cycleCo c).next st =
            ⟨ys[st.idx]?, ⟨(c.next st.inner).st, ys, st.idx + 1⟩, (c.next st.inner).ev⟩ := by
          simp [cycleCo, f1, hne', hc, hw, hne]
        have hji : j % ys.length = st.idx := by rw [← hm, Nat.mod_eq_of_lt hlt]
        rw [e]
        simp only
        rw [ih (j + 1) ⟨(c.next st.inner).st, ys, st.idx + 1⟩
          (Or.inr ⟨rfl, Nat.le_add_left 1 st.idx, Nat.succ_le_of_lt hlt, ?_, f2⟩)]
        · congr 1
          rw [hji]
        · show (st.idx + 1) % ys.length = (j + 1) % ys.length
          exact mod_succ_congr hm

/-- **cycle_take.** Over an input that yields the non-empty `ys`, `cycle` yields
`ys[0], ys[1], …, ys[len-1], ys[0], …` for ever: its first `n` outputs are `ys[t % len]`, `t < n`. -/
theorem cycle_outs (c : Co) (s : c.σ) (ys : List Val) (h : Fwd c s ys) (hne : ys ≠ []) (n : Nat) :
    outs (cycleCo c) n ⟨s, [], 0⟩ = (List.range n).map (fun t => ys[t % ys.length]?) := by
  have := cycle_gen c ys hne n 0 ⟨s, [], 0⟩ (Or.inl ⟨Nat.zero_le _, by simp, rfl, by simpa using h⟩)
  simpa using this

/-- over an empty input `cycle` is empty -/
theorem cycle_empty (c : Co) (s : c.σ) (h : Fwd c s []) : Fwd (cycleCo c) ⟨s, [], 0⟩ [] := by
  apply fwd_coind (cycleCo c) (fun (st : Cyc c.σ) xs => xs = [] ∧ st.cache = [] ∧ Fwd c st.inner [])
  · intro (st : Cyc c.σ) ⟨_, hc, hf⟩
    have ⟨f1, f2⟩ := fwd_nil.mp hf
    have e : (cycleCo c).next st = ⟨none, ⟨(c.next st.inner).st, st.cache, st.idx⟩, (c.next st.inner).ev⟩ := by
      simp [cycleCo, f1, hc]
    rw [e]
    exact ⟨rfl, rfl, hc, f2⟩
  · intro (st : Cyc c.σ) x xs ⟨he, _, _⟩
    cases he
  · exact ⟨rfl, rfl, h⟩

/-! ### arbitrary `next` / `next_back` call sequences on a running iterator -/

theorem runCalls_outs : ∀ (ds : List Bool) (it : It),
    (runCalls ds it).1 = (outsD it.c ds it.s).map (fun o => o.getD endMarker) := by
  intro ds
  induction ds with
  | nil => intro it; rfl
  | cons d ds ih =>
    intro it
    cases d with
    | true =>
      have := ih ⟨it.c, (it.c.next it.s).st⟩
      simp only [runCalls, It.next, outsD, List.map_cons] at this ⊢
      simp only [if_true]
      rw [this]
    | false =>
      have := ih ⟨it.c, (it.c.back it.s).st⟩
      simp only [runCalls, It.back, outsD, List.map_cons] at this ⊢
      simp only [Bool.false_eq_true, if_false]
      rw [this]

end KotoVerif.Iter
