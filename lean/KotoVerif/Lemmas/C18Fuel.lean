/-
C18 — fuel adequacy: the import nesting depth is bounded by the number of module files that are not
in progress, so from `files.length + 1` on (the driver uses `files.length + 3`) `runUnit`, `hostRun`
and `runOps` never run out of fuel and their results do not depend on the fuel.
-/
import KotoVerif.Lemmas.C18

namespace KotoVerif.C18L
open KotoVerif.Modules

/-- number of module files that are not being imported right now -/
def avail (files : List Path) (s : St) : Nat := files.countP (fun p => !inProgB s.cache p)

/-- two runners agree, and return, on every reachable state with fewer than `K` available files -/
def Agree (files : List Path) (K : Nat) (rec rec' : Runner) : Prop :=
  ∀ self dir body s, Inv s → avail files s < K →
    rec self dir body s = rec' self dir body s ∧ rec self dir body s ≠ none

theorem countP_lt_of {α : Type} (f g : α → Bool) (l : List α) (hle : ∀ x, g x = true → f x = true)
    (p : α) (hp : p ∈ l) (hf : f p = true) (hg : g p = false) : l.countP g < l.countP f := by
  induction l with
  | nil => cases hp
  | cons x xs ih =>
    have hmono : xs.countP g ≤ xs.countP f := List.countP_mono_left (fun x _ h => hle x h)
    rcases List.mem_cons.mp hp with h | h
    · subst h
      simp only [List.countP_cons, hf, hg]
      simp; omega
    · have := ih h
      simp only [List.countP_cons]
      by_cases hgx : g x = true
      · simp [hgx, hle x hgx]; exact this
      · by_cases hfx : f x = true
        · simp [hgx, hfx]; omega
        · simp [hgx, hfx]; exact this

theorem Rel.inProgB_eq {s s' : St} (h : Rel s s') (p : Path) : inProgB s'.cache p = inProgB s.cache p := by
  cases hc : s.cache p with
  | none =>
    have hcl := h.clean p hc
    cases hc' : s'.cache p with
    | none => simp [inProgB, hc', hc]
    | some en =>
      cases en with
      | inProgress => exact absurd hc' hcl
      | done e => simp [inProgB, hc', hc]
  | some en =>
    cases en with
    | inProgress => simp [inProgB, hc, h.prog p hc]
    | done e => simp [inProgB, hc, h.done p e hc]

theorem avail_eq_of_rel {files : List Path} {s s' : St} (h : Rel s s') : avail files s' = avail files s := by
  unfold avail
  congr 1
  funext p
  rw [h.inProgB_eq]

/-- the state in which a module starts executing satisfies the invariant -/
theorem inv_enter {s : St} {p : Path} (inv : Inv s) (hnone : s.cache p = none) :
    Inv (emit (Event.enter p) { s with cache := upd s.cache p (some Entry.inProgress), exports := {} }) := by
  have hdoneB_p : doneB s.cache p = false := by simp [doneB, hnone]
  have hinB_p : inProgB s.cache p = false := by simp [inProgB, hnone]
  refine ⟨?_, ?_, ?_⟩
  · intro q e hq
    change upd s.cache p (some Entry.inProgress) q = some (Entry.done e) at hq
    by_cases hqp : q = p
    · subst hqp; rw [upd_same] at hq; cases hq
    · rw [upd_other _ _ _ _ hqp] at hq; exact inv.loaded q e hq
  · intro q
    show (s.out ++ [Event.enter p]).count (Event.done q)
      = if doneB (upd s.cache p (some Entry.inProgress)) q then 1 else 0
    rw [count_snoc]
    have := inv.cntDone q
    by_cases hqp : q = p
    · subst hqp
      rw [doneB_upd_prog]; rw [hdoneB_p] at this
      simp [this]
    · rw [doneB_upd_other _ _ _ _ hqp]
      simp [this]
  · intro q
    show (s.out ++ [Event.enter p]).count (Event.enter q)
      = (s.out ++ [Event.enter p]).count (Event.done q) + (s.out ++ [Event.enter p]).count (Event.failed q)
        + if inProgB (upd s.cache p (some Entry.inProgress)) q then 1 else 0
    rw [count_snoc, count_snoc, count_snoc]
    have := inv.cntEnter q
    by_cases hqp : q = p
    · subst hqp
      rw [inProgB_upd_prog]; rw [hinB_p] at this
      simp [this]
    · rw [inProgB_upd_other _ _ _ _ hqp]
      simp [ev_enter_ne hqp, this]

theorem avail_enter {files : List Path} {s : St} {p : Path} (hnone : s.cache p = none) (hp : p ∈ files) :
    avail files (emit (Event.enter p) { s with cache := upd s.cache p (some Entry.inProgress), exports := {} })
      < avail files s := by
  unfold avail
  apply countP_lt_of _ _ files _ p hp
  · simp [inProgB, hnone]
  · show (!inProgB (upd s.cache p (some Entry.inProgress)) p) = false
    rw [inProgB_upd_prog]; rfl
  · intro q hq
    change (!inProgB (upd s.cache p (some Entry.inProgress)) q) = true at hq
    by_cases hqp : q = p
    · subst hqp; rw [inProgB_upd_prog] at hq; cases hq
    · rw [inProgB_upd_other _ _ _ _ hqp] at hq; exact hq

/-- the part of `run_import` that does not execute anything: either the result, or the module that
has to be executed -/
def importPlan (cfg : Cfg) (fs : FS) (fr : Frame) (name : Ref) (s : St) :
    Sum (Except Err V × St) (Path × St) :=
  match importHit cfg fr s name with
  | some v => .inl (.ok v, s)
  | none =>
    match findModule cfg fs fr.dir name with
    | none => .inl (.error .notFound, s)
    | some p =>
      match compileModule fs p s with
      | none => .inl (.error .compile, s)
      | some (fromCache, s1) =>
        match s1.cache p, fromCache with
        | some .inProgress, _ => .inl (.error .recursive, s1)
        | some (.done _), true => .inl (.ok (.mref p), s1)
        | _, _ => .inr (p, s1)

theorem runImport_plan (cfg : Cfg) (fs : FS) (rec : Runner) (fr : Frame) (name : Ref) (s : St) :
    runImport cfg fs rec fr name s =
      (match importPlan cfg fs fr name s with
       | .inl r => some r
       | .inr (p, s1) => loadModule fs rec p s1) := by
  unfold runImport importPlan
  cases importHit cfg fr s name with
  | some v => rfl
  | none =>
    dsimp only
    cases findModule cfg fs fr.dir name with
    | none => rfl
    | some p =>
      dsimp only
      cases compileModule fs p s with
      | none => rfl
      | some bs =>
        obtain ⟨b, s1⟩ := bs
        dsimp only
        cases s1.cache p with
        | none => rfl
        | some en =>
          cases en with
          | inProgress => rfl
          | done e => cases b <;> rfl

theorem importPlan_inr {cfg : Cfg} {fs : FS} {fr : Frame} {name : Ref} {s s1 : St} {p : Path}
    (h : importPlan cfg fs fr name s = .inr (p, s1)) :
    ∃ b, findModule cfg fs fr.dir name = some p ∧ compileModule fs p s = some (b, s1)
      ∧ s1.cache p ≠ some .inProgress ∧ (∀ e, s1.cache p = some (.done e) → b = false) := by
  unfold importPlan at h
  cases hnl : importHit cfg fr s name with
  | some v => rw [hnl] at h; cases h
  | none =>
    rw [hnl] at h
    dsimp only at h
    cases hfm : findModule cfg fs fr.dir name with
    | none => rw [hfm] at h; cases h
    | some q =>
      rw [hfm] at h
      dsimp only at h
      cases hcm : compileModule fs q s with
      | none => rw [hcm] at h; cases h
      | some bs =>
        obtain ⟨b, s2⟩ := bs
        rw [hcm] at h
        dsimp only at h
        cases hcp : s2.cache q with
        | none =>
          rw [hcp] at h
          simp only [Sum.inr.injEq, Prod.mk.injEq] at h
          obtain ⟨hq, hs⟩ := h
          subst hq; subst hs
          exact ⟨b, rfl, hcm, by rw [hcp]; simp, by intro e he; rw [hcp] at he; cases he⟩
        | some en =>
          cases en with
          | inProgress => rw [hcp] at h; cases h
          | done e =>
            rw [hcp] at h
            cases b with
            | true => cases h
            | false =>
              simp only [Sum.inr.injEq, Prod.mk.injEq] at h
              obtain ⟨hq, hs⟩ := h
              subst hq; subst hs
              exact ⟨false, rfl, hcm, by rw [hcp]; simp, by intro _ _; rfl⟩

theorem agree_loadModule {fs : FS} {files : List Path} {K : Nat} {rec rec' : Runner}
    (ha : Agree files K rec rec') {p : Path} {s : St} (hinv : Inv s) (hnone : s.cache p = none)
    (hp : p ∈ files) (hav : avail files s ≤ K) :
    loadModule fs rec p s = loadModule fs rec' p s ∧ loadModule fs rec p s ≠ none := by
  have hlt := avail_enter (files := files) hnone hp
  obtain ⟨heq, hne⟩ := ha (some p) p.folder (bodyOf fs p) _ (inv_enter hinv hnone) (by omega)
  unfold loadModule
  dsimp only
  rw [← heq]
  cases hr : rec (some p) p.folder (bodyOf fs p)
      (emit (Event.enter p) { s with cache := upd s.cache p (some Entry.inProgress), exports := {} }) with
  | none => exact absurd hr hne
  | some res =>
    obtain ⟨r1, s3⟩ := res
    cases r1 <;> exact ⟨rfl, by simp⟩

theorem agree_runImport {cfg : Cfg} {fs : FS} {files : List Path} {K : Nat} {rec rec' : Runner}
    (hfiles : ∀ dir r p, findModule cfg fs dir r = some p → p ∈ files) (ha : Agree files K rec rec') {fr : Frame} {name : Ref}
    {s : St} (hinv : Inv s) (hav : avail files s ≤ K) :
    runImport cfg fs rec fr name s = runImport cfg fs rec' fr name s
      ∧ runImport cfg fs rec fr name s ≠ none := by
  rw [runImport_plan, runImport_plan]
  cases hpl : importPlan cfg fs fr name s with
  | inl r => exact ⟨rfl, by simp⟩
  | inr ps =>
    obtain ⟨p, s1⟩ := ps
    dsimp only
    obtain ⟨b, hfm, hcm, hnp, hnd⟩ := importPlan_inr hpl
    obtain ⟨inv1, rel1⟩ := sound_compileModule hcm hinv
    obtain ⟨hc, _, _, _, _, hfalse, _⟩ := compileModule_spec hcm
    have hnone : s1.cache p = none := by
      cases hcp : s1.cache p with
      | none => rfl
      | some en =>
        cases en with
        | inProgress => exact absurd hcp hnp
        | done e =>
          have hb := hnd e hcp
          have := hinv.loaded p e (by rw [← hc]; exact hcp)
          rw [hfalse hb] at this; cases this
    exact agree_loadModule ha inv1 hnone (hfiles _ _ p hfm)
      (by rw [avail_eq_of_rel rel1]; exact hav)

section plumbing
variable {cfg : Cfg} {fs : FS} {files : List Path} {K : Nat} {rec rec' : Runner}

theorem agree_importRoot (hfiles : ∀ dir r p, findModule cfg fs dir r = some p → p ∈ files) (ha : Agree files K rec rec')
    {fr : Frame} {m : Ref} {s : St} (hinv : Inv s) (hav : avail files s ≤ K) :
    importRoot cfg fs rec fr m s = importRoot cfg fs rec' fr m s
      ∧ importRoot cfg fs rec fr m s ≠ none := by
  have hrv : rootValue cfg fs rec fr m s = rootValue cfg fs rec' fr m s ∧ rootValue cfg fs rec fr m s ≠ none := by
    unfold rootValue
    cases (if m.str then none else lookup m.name fr.locals) with
    | some v => exact ⟨rfl, by simp⟩
    | none => exact agree_runImport hfiles ha hinv hav
  unfold importRoot
  rw [← hrv.1]
  cases hx : rootValue cfg fs rec fr m s with
  | none => exact absurd hx hrv.2
  | some res =>
    obtain ⟨r1, s1⟩ := res
    cases r1 <;> exact ⟨rfl, by simp⟩

theorem agree_wildRoot (hfiles : ∀ dir r p, findModule cfg fs dir r = some p → p ∈ files) (ha : Agree files K rec rec')
    {fr : Frame} {m : Ref} {s : St} (hinv : Inv s) (hav : avail files s ≤ K) :
    wildRoot cfg fs rec fr m s = wildRoot cfg fs rec' fr m s
      ∧ wildRoot cfg fs rec fr m s ≠ none := by
  unfold wildRoot
  split
  · cases (if m.str then none else lookup m.name fr.locals) with
    | some v => exact ⟨rfl, by simp⟩
    | none => exact agree_runImport hfiles ha hinv hav
  · obtain ⟨he, hn⟩ := agree_importRoot (cfg := cfg) (m := m) (fr := fr) hfiles ha hinv hav
    rw [← he]
    cases hx : importRoot cfg fs rec fr m s with
    | none => exact absurd hx hn
    | some res =>
      obtain ⟨r1, s1⟩ := res
      cases r1 <;> exact ⟨rfl, by simp⟩

theorem agree_importItems (hfiles : ∀ dir r p, findModule cfg fs dir r = some p → p ∈ files) (hs : RecSound rec)
    (ha : Agree files K rec rec') (items : List Item) :
    ∀ (fr : Frame) (s : St), Inv s → avail files s ≤ K →
    importItems cfg fs rec items fr s = importItems cfg fs rec' items fr s
      ∧ importItems cfg fs rec items fr s ≠ none := by
  induction items with
  | nil => intro fr s _ _; exact ⟨rfl, by simp [importItems]⟩
  | cons it rest ih =>
    intro fr s hinv hav
    obtain ⟨he, hn⟩ := agree_importRoot (cfg := cfg) (m := it.toRef) (fr := fr) hfiles ha hinv hav
    simp only [importItems]
    rw [← he]
    cases hx : importRoot cfg fs rec fr it.toRef s with
    | none => exact absurd hx hn
    | some res =>
      obtain ⟨r1, s1⟩ := res
      cases r1 with
      | error e => exact ⟨rfl, by simp⟩
      | ok v =>
        dsimp only
        have h1 := sound_importRoot hs hx
        have h2 := h1.trans (sound_exportItem fr.exportTop cfg.exportAlias cfg.exportStrAlias it v s1)
        obtain ⟨inv2, rel2⟩ := h2 hinv
        exact ih _ _ inv2 (by rw [avail_eq_of_rel rel2]; exact hav)

theorem agree_execAct (hfiles : ∀ dir r p, findModule cfg fs dir r = some p → p ∈ files) (hs : RecSound rec)
    (ha : Agree files K rec rec') (a : Act) (fr : Frame) (s : St) (hinv : Inv s)
    (hav : avail files s ≤ K) :
    execAct cfg fs rec a fr s = execAct cfg fs rec' a fr s ∧ execAct cfg fs rec a fr s ≠ none := by
  cases a with
  | print mk => exact ⟨rfl, by simp [execAct]⟩
  | export_ k v => exact ⟨rfl, by simp [execAct]⟩
  | assign k v => exact ⟨rfl, by simp [execAct]⟩
  | exportId k src =>
    refine ⟨rfl, ?_⟩
    simp only [execAct]
    cases readId cfg fr s src <;> simp
  | «show» mk k =>
    refine ⟨rfl, ?_⟩
    simp only [execAct]
    cases readId cfg fr s k <;> simp
  | importMods items =>
    simp only [execAct]
    exact agree_importItems hfiles hs ha items fr s hinv hav
  | fromImport m items =>
    obtain ⟨he, hn⟩ := agree_importRoot (cfg := cfg) (m := m) (fr := fr) hfiles ha hinv hav
    simp only [execAct]
    rw [← he]
    cases hx : importRoot cfg fs rec fr m s with
    | none => exact absurd hx hn
    | some res =>
      obtain ⟨r1, s1⟩ := res
      cases r1 <;> exact ⟨rfl, by simp⟩
  | fromAll m =>
    obtain ⟨he, hn⟩ := agree_wildRoot (cfg := cfg) (m := m) (fr := fr) hfiles ha hinv hav
    simp only [execAct]
    rw [← he]
    cases hx : wildRoot cfg fs rec fr m s with
    | none => exact absurd hx hn
    | some res =>
      obtain ⟨r1, s1⟩ := res
      cases r1 with
      | error e => exact ⟨rfl, by simp⟩
      | ok mv =>
        dsimp only
        refine ⟨rfl, ?_⟩
        cases fr.exportTop <;> cases mv <;> simp [V.scalar]
  | tryImport m mk =>
    obtain ⟨he, hn⟩ := agree_runImport (cfg := cfg) (name := m) (fr := fr) hfiles ha hinv hav
    simp only [execAct]
    rw [← he]
    cases hx : runImport cfg fs rec fr m s with
    | none => exact absurd hx hn
    | some res =>
      obtain ⟨r1, s1⟩ := res
      cases r1 <;> exact ⟨rfl, by simp⟩
  | tryShow mk k =>
    refine ⟨rfl, ?_⟩
    simp only [execAct]
    cases readId cfg fr s k <;> simp
  | fail mk => exact ⟨rfl, by simp [execAct]⟩
  | assignPat exp targets rhs =>
    refine ⟨rfl, ?_⟩
    simp only [execAct]
    cases evalRhs cfg fr s rhs <;> simp
  | compound k op r => exact ⟨rfl, by simp [execAct]⟩
  | loopCompound n k op r =>
    refine ⟨rfl, ?_⟩
    simp only [execAct]
    split <;> simp
  | cbExport last k => exact ⟨rfl, by simp [execAct]⟩
  | condAssign form k v =>
    refine ⟨rfl, ?_⟩
    simp only [execAct]
    split <;> simp

theorem agree_execActs (hfiles : ∀ dir r p, findModule cfg fs dir r = some p → p ∈ files) (hs : RecSound rec)
    (ha : Agree files K rec rec') (acts : List Act) :
    ∀ (fr : Frame) (s : St), Inv s → avail files s ≤ K →
    execActs cfg fs rec acts fr s = execActs cfg fs rec' acts fr s
      ∧ execActs cfg fs rec acts fr s ≠ none := by
  induction acts with
  | nil => intro fr s _ _; exact ⟨rfl, by simp [execActs]⟩
  | cons a rest ih =>
    intro fr s hinv hav
    obtain ⟨he, hn⟩ := agree_execAct (cfg := cfg) hfiles hs ha a fr s hinv hav
    simp only [execActs]
    rw [← he]
    cases hx : execAct cfg fs rec a fr s with
    | none => exact absurd hx hn
    | some res =>
      obtain ⟨r1, fr1, s1⟩ := res
      cases r1 with
      | some e => exact ⟨rfl, by simp⟩
      | none =>
        dsimp only
        obtain ⟨inv1, rel1⟩ := sound_execAct hs hx hinv
        exact ih fr1 s1 inv1 (by rw [avail_eq_of_rel rel1]; exact hav)

theorem agree_runFn (hfiles : ∀ dir r p, findModule cfg fs dir r = some p → p ∈ files) (hs : RecSound rec)
    (ha : Agree files K rec rec') (c : Closure) (s : St) (hinv : Inv s) (hav : avail files s ≤ K) :
    runFn cfg fs rec c s = runFn cfg fs rec' c s ∧ runFn cfg fs rec c s ≠ none := by
  obtain ⟨he, hn⟩ := agree_execActs (cfg := cfg) hfiles hs ha (closureBody c)
    { dir := c.dir, locals := c.locals, wild := c.wild, exportTop := false } s hinv hav
  unfold runFn
  rw [← he]
  cases hx : execActs cfg fs rec (closureBody c)
      { dir := c.dir, locals := c.locals, wild := c.wild, exportTop := false } s with
  | none => exact absurd hx hn
  | some res => exact ⟨rfl, by simp⟩

theorem agree_callValue (hfiles : ∀ dir r p, findModule cfg fs dir r = some p → p ∈ files) (hs : RecSound rec)
    (ha : Agree files K rec rec') (v : V) (s : St) (hinv : Inv s) (hav : avail files s ≤ K) :
    callValue cfg fs rec v s = callValue cfg fs rec' v s ∧ callValue cfg fs rec v s ≠ none := by
  unfold callValue
  cases v with
  | fn home key =>
    dsimp only
    cases fnOf s home key with
    | none => exact ⟨rfl, by simp⟩
    | some c =>
      dsimp only
      obtain ⟨he, hn⟩ := agree_execActs (cfg := cfg) hfiles hs ha (closureBody c)
        { dir := c.dir, locals := c.locals, wild := c.wild, exportTop := false, home := home } s hinv hav
      rw [← he]
      cases hx : execActs cfg fs rec (closureBody c)
          { dir := c.dir, locals := c.locals, wild := c.wild, exportTop := false, home := home } s with
      | none => exact absurd hx hn
      | some res => exact ⟨rfl, by simp⟩
  | int n => exact ⟨rfl, by simp⟩
  | mref p => exact ⟨rfl, by simp⟩
  | core n => exact ⟨rfl, by simp⟩
  | native n => exact ⟨rfl, by simp⟩
  | null => exact ⟨rfl, by simp⟩

theorem agree_execTAct (hfiles : ∀ dir r p, findModule cfg fs dir r = some p → p ∈ files) (hs : RecSound rec)
    (ha : Agree files K rec rec') (a : TAct) (fr : Frame) (s : St) (hinv : Inv s)
    (hav : avail files s ≤ K) :
    execTAct cfg fs rec a fr s = execTAct cfg fs rec' a fr s ∧ execTAct cfg fs rec a fr s ≠ none := by
  cases a with
  | act a => simp only [execTAct]; exact agree_execAct hfiles hs ha a fr s hinv hav
  | defMain mk body => exact ⟨rfl, by simp [execTAct]⟩
  | defTest n mk body => exact ⟨rfl, by simp [execTAct]⟩
  | exportFn k mk body => exact ⟨rfl, by simp [execTAct]⟩
  | callMember m k =>
    simp only [execTAct]
    cases readId cfg fr s m with
    | none => exact ⟨rfl, by simp⟩
    | some mv =>
      dsimp only
      cases access s.cache mv k with
      | error e => exact ⟨rfl, by simp⟩
      | ok fv =>
        dsimp only
        obtain ⟨he, hn⟩ := agree_callValue (cfg := cfg) hfiles hs ha fv s hinv hav
        rw [← he]
        cases hx : callValue cfg fs rec fv s with
        | none => exact absurd hx hn
        | some res => exact ⟨rfl, by simp⟩
  | call k =>
    simp only [execTAct]
    cases readId cfg fr s k with
    | none => exact ⟨rfl, by simp⟩
    | some fv =>
      dsimp only
      obtain ⟨he, hn⟩ := agree_callValue (cfg := cfg) hfiles hs ha fv s hinv hav
      rw [← he]
      cases hx : callValue cfg fs rec fv s with
      | none => exact absurd hx hn
      | some res => exact ⟨rfl, by simp⟩

theorem agree_execTActs (hfiles : ∀ dir r p, findModule cfg fs dir r = some p → p ∈ files) (hs : RecSound rec)
    (ha : Agree files K rec rec') (acts : List TAct) :
    ∀ (fr : Frame) (s : St), Inv s → avail files s ≤ K →
    execTActs cfg fs rec acts fr s = execTActs cfg fs rec' acts fr s
      ∧ execTActs cfg fs rec acts fr s ≠ none := by
  induction acts with
  | nil => intro fr s _ _; exact ⟨rfl, by simp [execTActs]⟩
  | cons a rest ih =>
    intro fr s hinv hav
    obtain ⟨he, hn⟩ := agree_execTAct (cfg := cfg) hfiles hs ha a fr s hinv hav
    simp only [execTActs]
    rw [← he]
    cases hx : execTAct cfg fs rec a fr s with
    | none => exact absurd hx hn
    | some res =>
      obtain ⟨r1, fr1, s1⟩ := res
      cases r1 with
      | some e => exact ⟨rfl, by simp⟩
      | none =>
        dsimp only
        obtain ⟨inv1, rel1⟩ := sound_execTAct hs hx hinv
        exact ih fr1 s1 inv1 (by rw [avail_eq_of_rel rel1]; exact hav)

theorem agree_runTests (hfiles : ∀ dir r p, findModule cfg fs dir r = some p → p ∈ files) (hs : RecSound rec)
    (ha : Agree files K rec rec') (ts : List (Name × Closure)) :
    ∀ (s : St), Inv s → avail files s ≤ K →
    runTests cfg fs rec ts s = runTests cfg fs rec' ts s ∧ runTests cfg fs rec ts s ≠ none := by
  induction ts with
  | nil => intro s _ _; exact ⟨rfl, by simp [runTests]⟩
  | cons t rest ih =>
    intro s hinv hav
    obtain ⟨n, c⟩ := t
    obtain ⟨he, hn⟩ := agree_runFn (cfg := cfg) hfiles hs ha c s hinv hav
    simp only [runTests]
    rw [← he]
    cases hx : runFn cfg fs rec c s with
    | none => exact absurd hx hn
    | some res =>
      obtain ⟨r1, s1⟩ := res
      cases r1 with
      | some e => exact ⟨rfl, by simp⟩
      | none =>
        dsimp only
        obtain ⟨inv1, rel1⟩ := sound_runFn hs hx hinv
        exact ih s1 inv1 (by rw [avail_eq_of_rel rel1]; exact hav)

theorem agree_runMain (hfiles : ∀ dir r p, findModule cfg fs dir r = some p → p ∈ files) (hs : RecSound rec)
    (ha : Agree files K rec rec') (s : St) (hinv : Inv s) (hav : avail files s ≤ K) :
    runMain cfg fs rec s = runMain cfg fs rec' s ∧ runMain cfg fs rec s ≠ none := by
  unfold runMain
  cases s.exports.main with
  | none => exact ⟨rfl, by simp⟩
  | some c => exact agree_runFn hfiles hs ha c s hinv hav

theorem agree_afterTop (hfiles : ∀ dir r p, findModule cfg fs dir r = some p → p ∈ files) (hs : RecSound rec)
    (ha : Agree files K rec rec') (tests : Bool) (s : St) (hinv : Inv s) (hav : avail files s ≤ K) :
    afterTop cfg fs rec tests s = afterTop cfg fs rec' tests s ∧ afterTop cfg fs rec tests s ≠ none := by
  unfold afterTop
  cases tests with
  | false =>
    simp only [Bool.false_eq_true, if_false]
    exact agree_runMain hfiles hs ha s hinv hav
  | true =>
    simp only [if_true]
    obtain ⟨he, hn⟩ := agree_runTests (cfg := cfg) hfiles hs ha s.exports.tests s hinv hav
    rw [← he]
    cases hx : runTests cfg fs rec s.exports.tests s with
    | none => exact absurd hx hn
    | some res =>
      obtain ⟨r1, s1⟩ := res
      cases r1 with
      | some e => exact ⟨rfl, by simp⟩
      | none =>
        dsimp only
        obtain ⟨inv1, rel1⟩ := sound_runTests hs _ hx hinv
        exact agree_runMain hfiles hs ha s1 inv1 (by rw [avail_eq_of_rel rel1]; exact hav)

theorem agree_runBody (hfiles : ∀ dir r p, findModule cfg fs dir r = some p → p ∈ files) (hs : RecSound rec)
    (ha : Agree files K rec rec') (tests : Bool) (fr : Frame) (body : List TAct) (s : St)
    (hinv : Inv s) (hav : avail files s ≤ K) :
    runBody cfg fs rec tests fr body s = runBody cfg fs rec' tests fr body s
      ∧ runBody cfg fs rec tests fr body s ≠ none := by
  obtain ⟨he, hn⟩ := agree_execTActs (cfg := cfg) hfiles hs ha body fr s hinv hav
  unfold runBody
  rw [← he]
  cases hx : execTActs cfg fs rec body fr s with
  | none => exact absurd hx hn
  | some res =>
    obtain ⟨r1, fr1, s1⟩ := res
    cases r1 with
    | some e => exact ⟨rfl, by simp⟩
    | none =>
      dsimp only
      obtain ⟨inv1, rel1⟩ := sound_execTActs hs _ hx hinv
      exact agree_afterTop hfiles hs ha tests s1 inv1 (by rw [avail_eq_of_rel rel1]; exact hav)

end plumbing

/-- all fuels above the number of available files agree, and suffice -/
theorem runUnit_adequate (cfg : Cfg) (fs : FS) (files : List Path)
    (hfiles : ∀ dir r p, findModule cfg fs dir r = some p → p ∈ files) :
    ∀ K n m, K < n → K < m → Agree files (K + 1) (runUnit cfg fs n) (runUnit cfg fs m) := by
  intro K
  induction K with
  | zero =>
    intro n m hn hm self dir body s hinv hav
    obtain ⟨n', rfl⟩ : ∃ n', n = n' + 1 := ⟨n - 1, by omega⟩
    obtain ⟨m', rfl⟩ : ∃ m', m = m' + 1 := ⟨m - 1, by omega⟩
    simp only [runUnit]
    have ha : Agree files 0 (runUnit cfg fs n') (runUnit cfg fs m') := by
      intro _ _ _ _ _ h; omega
    exact agree_runBody hfiles (recSound_runUnit cfg fs n') ha _ _ _ s hinv (by omega)
  | succ K ih =>
    intro n m hn hm self dir body s hinv hav
    obtain ⟨n', rfl⟩ : ∃ n', n = n' + 1 := ⟨n - 1, by omega⟩
    obtain ⟨m', rfl⟩ : ∃ m', m = m' + 1 := ⟨m - 1, by omega⟩
    simp only [runUnit]
    exact agree_runBody hfiles (recSound_runUnit cfg fs n') (ih n' m' (by omega) (by omega)) _ _ _ s hinv
      (by omega)

theorem avail_le_length (files : List Path) (s : St) : avail files s ≤ files.length :=
  List.countP_le_length

theorem hostRun_adequate (cfg : Cfg) (fs : FS) (files : List Path)
    (hfiles : ∀ dir r p, findModule cfg fs dir r = some p → p ∈ files) (n m : Nat) (hn : files.length < n) (hm : files.length < m)
    (op : Op) (s : St) (hinv : Inv s) :
    hostRun cfg fs n op s = hostRun cfg fs m op s ∧ hostRun cfg fs n op s ≠ none := by
  unfold hostRun
  exact agree_runBody hfiles (recSound_runUnit cfg fs n)
    (runUnit_adequate cfg fs files hfiles files.length n m hn hm) _ _ _ s hinv
    (by have := avail_le_length files s; omega)

theorem runOps_adequate (cfg : Cfg) (fs : FS) (files : List Path)
    (hfiles : ∀ dir r p, findModule cfg fs dir r = some p → p ∈ files) (n m : Nat) (hn : files.length < n) (hm : files.length < m)
    (ops : List Op) : ∀ (s : St), Inv s →
    runOps cfg fs n ops s = runOps cfg fs m ops s ∧ runOps cfg fs n ops s ≠ none := by
  induction ops with
  | nil => intro s _; exact ⟨rfl, by simp [runOps]⟩
  | cons op rest ih =>
    intro s hinv
    obtain ⟨he, hne⟩ := hostRun_adequate cfg fs files hfiles n m hn hm op s hinv
    simp only [runOps]
    rw [← he]
    cases hx : hostRun cfg fs n op s with
    | none => exact absurd hx hne
    | some res =>
      obtain ⟨r, s1⟩ := res
      dsimp only
      obtain ⟨he2, hne2⟩ := ih s1 (sound_hostRun hx hinv).1
      rw [← he2]
      cases hy : runOps cfg fs n rest s1 with
      | none => exact absurd hy hne2
      | some rs => exact ⟨rfl, by simp⟩

end KotoVerif.C18L
