/-
Helper lemmas for C05: a unit's listing is the decoding of the unit's bytes at the listed positions.
-/
import KotoVerif.Lemmas.C05Codec
import KotoVerif.Model.WF

namespace KotoVerif.Bytecode
open KotoVerif.Gen

theorem decodeVarFuel_drop (fuel shift acc : Nat) (bs : List Nat) (v n : Nat) (r : List Nat)
    (h : decodeVarFuel fuel shift acc bs = some (v, n, r)) : r = bs.drop n := by
  induction fuel generalizing shift acc bs v n r with
  | zero => simp [decodeVarFuel] at h
  | succ fuel ih =>
    cases bs with
    | nil => simp [decodeVarFuel] at h
    | cons b rest =>
      simp only [decodeVarFuel] at h
      split at h
      · simp at h
        obtain ⟨_, rfl, rfl⟩ := h
        simp
      · split at h
        · rename_i v' n' r' heq
          simp at h
          obtain ⟨_, rfl, rfl⟩ := h
          have := ih _ _ _ _ _ _ heq
          simp [this]
        · simp at h

theorem decodeField_drop (f : Fld) (bs : List Nat) (v n : Nat) (r : List Nat)
    (h : decodeField f bs = some (v, n, r)) : r = bs.drop n := by
  cases f with
  | reg => cases bs <;> simp [decodeField] at h; obtain ⟨_, rfl, rfl⟩ := h; simp
  | imm => cases bs <;> simp [decodeField] at h; obtain ⟨_, rfl, rfl⟩ := h; simp
  | immLt b =>
    cases bs with
    | nil => simp [decodeField] at h
    | cons x xs =>
      simp only [decodeField] at h
      split at h
      · simp at h; obtain ⟨_, rfl, rfl⟩ := h; simp
      · simp at h
  | var => exact decodeVarFuel_drop _ _ _ _ _ _ _ (by simpa [decodeField, decodeVarN] using h)
  | const k => exact decodeVarFuel_drop _ _ _ _ _ _ _ (by simpa [decodeField, decodeVarN] using h)
  | off =>
    match bs, h with
    | a :: b :: r', h => simp [decodeField] at h; obtain ⟨_, rfl, rfl⟩ := h; simp
    | [_], h => simp [decodeField] at h
    | [], h => simp [decodeField] at h
  | offBack =>
    match bs, h with
    | a :: b :: r', h => simp [decodeField] at h; obtain ⟨_, rfl, rfl⟩ := h; simp
    | [_], h => simp [decodeField] at h
    | [], h => simp [decodeField] at h
  | size16 =>
    match bs, h with
    | a :: b :: r', h => simp [decodeField] at h; obtain ⟨_, rfl, rfl⟩ := h; simp
    | [_], h => simp [decodeField] at h
    | [], h => simp [decodeField] at h

theorem decodeFields_drop (fs : List Fld) (bs : List Nat) (vs : List Nat) (n : Nat) (r : List Nat)
    (h : decodeFields fs bs = some (vs, n, r)) : r = bs.drop n := by
  induction fs generalizing bs vs n r with
  | nil => simp [decodeFields] at h; obtain ⟨_, rfl, rfl⟩ := h; simp
  | cons f fs ih =>
    simp only [decodeFields] at h
    split at h
    · simp at h
    · rename_i v k r1 h1
      split at h
      · simp at h
      · rename_i vs' m r2 h2
        simp at h
        obtain ⟨_, rfl, rfl⟩ := h
        have a := decodeField_drop _ _ _ _ _ h1
        have b := ih _ _ _ _ h2
        rw [b, a, List.drop_drop]

theorem decode_drop (bs : List Nat) (i : Instr) (size : Nat) (rest : List Nat)
    (h : decode bs = .ok i size rest) : rest = bs.drop size := by
  match bs, h with
  | [], h => simp [decode] at h
  | [_], h => simp [decode] at h
  | opb :: b :: bs', h =>
    simp only [decode] at h
    split at h
    · simp at h
    · split at h
      · simp at h
      · rename_i args n r1 h1
        split at h
        · simp at h
        · rename_i targs m r2 h2
          simp at h
          obtain ⟨_, rfl, rfl⟩ := h
          have a := decodeFields_drop _ _ _ _ _ h1
          have b := decodeFields_drop _ _ _ _ _ h2
          rw [b, a, List.drop_drop]
          have : 1 + n + m = (n + m) + 1 := by omega
          rw [this, List.drop_succ_cons]

/-- Every entry of a unit's sweep is what `decode` reads at that position of the unit's bytes. -/
theorem sweep_decodes (fuel pc : Nat) (bs : List Nat) (items : List Ann) (subs : List Sub)
    (h : sweep fuel pc bs = some (items, subs)) :
    ∀ a ∈ items, pc ≤ a.pc ∧ ∃ rest, decode (bs.drop (a.pc - pc)) = .ok a.ins a.size rest := by
  induction fuel generalizing pc bs items subs with
  | zero => simp [sweep] at h
  | succ fuel ih =>
    cases bs with
    | nil =>
      simp [sweep] at h
      obtain ⟨rfl, _⟩ := h
      intro a ha; simp at ha
    | cons b0 bs0 =>
      simp only [sweep] at h
      split at h
      · rename_i i size rest hd
        have hrest := decode_drop _ _ _ _ hd
        have hlen := decode_len _ _ _ _ hd
        split at h
        · rename_i z need hsk
          split at h
          · split at h
            · rename_i items' subs' hrec
              simp at h
              obtain ⟨rfl, _⟩ := h
              intro a ha
              simp at ha
              rcases ha with rfl | ha
              · exact ⟨Nat.le_refl _, rest, by simpa using hd⟩
              · obtain ⟨hge, r', hdec⟩ := ih _ _ _ _ hrec a ha
                refine ⟨by omega, r', ?_⟩
                rw [hrest, List.drop_drop, List.drop_drop] at hdec
                have : size + (z + (a.pc - (pc + size + z))) = a.pc - pc := by omega
                rw [← this]
                exact hdec
            · simp at h
          · simp at h
        · split at h
          · rename_i items' subs' hrec
            simp at h
            obtain ⟨rfl, _⟩ := h
            intro a ha
            simp at ha
            rcases ha with rfl | ha
            · exact ⟨Nat.le_refl _, rest, by simpa using hd⟩
            · obtain ⟨hge, r', hdec⟩ := ih _ _ _ _ hrec a ha
              refine ⟨by omega, r', ?_⟩
              rw [hrest, List.drop_drop] at hdec
              have : size + (a.pc - (pc + size)) = a.pc - pc := by omega
              rw [← this]
              exact hdec
          · simp at h
      · simp at h

theorem annotate_fields (cur : Option Depth) (pend : List (Nat × Depth)) (items : List Ann) :
    (annotate cur pend items).map (fun a => (a.pc, a.size, a.ins))
      = items.map (fun a => (a.pc, a.size, a.ins)) := by
  induction items generalizing cur pend with
  | nil => simp [annotate]
  | cons a rest ih =>
    simp only [annotate]
    split
    · simp [ih]
    · split
      · simp [ih]
      · simp [ih]

theorem annotate_mem (cur : Option Depth) (pend : List (Nat × Depth)) (items : List Ann) (a : Ann)
    (h : a ∈ annotate cur pend items) : ∃ a0 ∈ items, a0.pc = a.pc ∧ a0.size = a.size ∧ a0.ins = a.ins := by
  have hm : (a.pc, a.size, a.ins) ∈ (annotate cur pend items).map (fun a => (a.pc, a.size, a.ins)) :=
    List.mem_map.mpr ⟨a, h, rfl⟩
  rw [annotate_fields] at hm
  obtain ⟨a0, h0, he⟩ := List.mem_map.mp hm
  simp at he
  exact ⟨a0, h0, he.1, he.2.1, he.2.2⟩

theorem unitListing_decodes (base : Nat) (bs : List Nat) (anns : List Ann) (subs : List Sub)
    (h : unitListing base bs = some (anns, subs)) :
    ∀ a ∈ anns, base ≤ a.pc ∧ ∃ rest, decode (bs.drop (a.pc - base)) = .ok a.ins a.size rest := by
  unfold unitListing at h
  split at h
  · rename_i items subs' hs
    simp at h
    obtain ⟨rfl, _⟩ := h
    intro a ha
    obtain ⟨a0, h0, hpc, hsz, hins⟩ := annotate_mem _ _ _ a ha
    have := sweep_decodes _ _ _ _ _ hs a0 h0
    rw [hpc, hsz, hins] at this
    exact this
  · simp at h

end KotoVerif.Bytecode
