/-
C01 layer 5, loop layer: the flat instruction stream with forward jumps and `JumpBack`
(`flattenL`, pc-based executor `execLFlat`) simulates the structured loop code (`execL`):
`flat_sim`. A piece of code embedded at `base` in a program runs from `base` to

  * `base + sizeL c`           when it completes normally,
  * `base + sizeL c + post`    when it breaks   (the instruction after the loop's final JumpBack),
  * `base - pre`               when it continues (the loop start),

and a fault of the structured code is a fault of the flat run.
-/
import KotoVerif.Lemmas.C01LoopSem

namespace KotoVerif.Compile

variable {S : Sem}

/-! ## programs containing a piece of code at a position -/

/-- `prog` contains the instructions `L` at position `base` -/
def At (prog : List LFlat) (base : Nat) (L : List LFlat) : Prop :=
  ∃ A B, prog = A ++ L ++ B ∧ A.length = base

theorem At.left {prog : List LFlat} {base : Nat} {L1 L2 : List LFlat} (h : At prog base (L1 ++ L2)) :
    At prog base L1 := by
  obtain ⟨A, B, h1, h2⟩ := h
  exact ⟨A, L2 ++ B, by simp [h1], h2⟩

theorem At.right {prog : List LFlat} {base : Nat} {L1 L2 : List LFlat} (h : At prog base (L1 ++ L2)) :
    At prog (base + L1.length) L2 := by
  obtain ⟨A, B, h1, h2⟩ := h
  exact ⟨A ++ L1, B, by simp [h1], by simp [h2]⟩

theorem At.head {prog : List LFlat} {base : Nat} {i : LFlat} {L : List LFlat} (h : At prog base (i :: L)) :
    prog[base]? = some i := by
  obtain ⟨A, B, h1, h2⟩ := h
  subst h1 h2
  simp

theorem At.tail {prog : List LFlat} {base : Nat} {i : LFlat} {L : List LFlat} (h : At prog base (i :: L)) :
    At prog (base + 1) L := by
  have : At prog base ([i] ++ L) := h
  exact this.right

theorem At.whole (L : List LFlat) : At L 0 L := ⟨[], [], by simp, rfl⟩

/-! ## runs -/

/-- from `(pc, σ)` the program reaches `(pc', σ')` (in some number of steps, whatever fuel is left) -/
def Steps (S : Sem) (prog : List LFlat) (pc : Nat) (σ : Regs S) (pc' : Nat) (σ' : Regs S) : Prop :=
  ∃ m, ∀ K, execLFlat S prog (m + K) pc σ = execLFlat S prog K pc' σ'

/-- from `(pc, σ)` the program faults -/
def Fails (S : Sem) (prog : List LFlat) (pc : Nat) (σ : Regs S) : Prop :=
  ∃ m, ∀ K, execLFlat S prog (m + K) pc σ = .err

theorem Steps.refl (prog : List LFlat) (pc : Nat) (σ : Regs S) : Steps S prog pc σ pc σ :=
  ⟨0, fun K => by rw [Nat.zero_add]⟩

theorem Steps.trans {prog : List LFlat} {p1 p2 p3 : Nat} {σ1 σ2 σ3 : Regs S}
    (h1 : Steps S prog p1 σ1 p2 σ2) (h2 : Steps S prog p2 σ2 p3 σ3) : Steps S prog p1 σ1 p3 σ3 := by
  obtain ⟨m1, e1⟩ := h1
  obtain ⟨m2, e2⟩ := h2
  exact ⟨m1 + m2, fun K => by rw [Nat.add_assoc, e1, e2]⟩

theorem Steps.fails {prog : List LFlat} {p1 p2 : Nat} {σ1 σ2 : Regs S}
    (h1 : Steps S prog p1 σ1 p2 σ2) (h2 : Fails S prog p2 σ2) : Fails S prog p1 σ1 := by
  obtain ⟨m1, e1⟩ := h1
  obtain ⟨m2, e2⟩ := h2
  exact ⟨m1 + m2, fun K => by rw [Nat.add_assoc, e1, e2]⟩

theorem Steps.cast {prog : List LFlat} {p1 p2 p2' : Nat} {σ1 σ2 : Regs S}
    (h : Steps S prog p1 σ1 p2 σ2) (hp : p2 = p2') : Steps S prog p1 σ1 p2' σ2 := hp ▸ h

theorem step_op {prog : List LFlat} {pc : Nat} {i : Instr} {σ σ1 : Regs S}
    (h : prog[pc]? = some (.op i)) (hs : stepInstr S i σ = some σ1) : Steps S prog pc σ (pc + 1) σ1 :=
  ⟨1, fun K => by rw [Nat.add_comm]; simp [execLFlat, h, hs]⟩

theorem step_op_fail {prog : List LFlat} {pc : Nat} {i : Instr} {σ : Regs S}
    (h : prog[pc]? = some (.op i)) (hs : stepInstr S i σ = none) : Fails S prog pc σ :=
  ⟨1, fun K => by rw [Nat.add_comm]; simp [execLFlat, h, hs]⟩

theorem step_jif {prog : List LFlat} {pc : Nat} {r : Reg} {k : Nat} {σ : Regs S}
    (h : prog[pc]? = some (.jumpIfFalse r k)) :
    Steps S prog pc σ (if S.truthy (σ r) then pc + 1 else pc + 1 + k) σ :=
  ⟨1, fun K => by
    rw [Nat.add_comm]
    by_cases ht : S.truthy (σ r) = true <;> simp [execLFlat, h, ht]⟩

theorem step_jit {prog : List LFlat} {pc : Nat} {r : Reg} {k : Nat} {σ : Regs S}
    (h : prog[pc]? = some (.jumpIfTrue r k)) :
    Steps S prog pc σ (if S.truthy (σ r) then pc + 1 + k else pc + 1) σ :=
  ⟨1, fun K => by
    rw [Nat.add_comm]
    by_cases ht : S.truthy (σ r) = true <;> simp [execLFlat, h, ht]⟩

theorem step_jump {prog : List LFlat} {pc : Nat} {k : Nat} {σ : Regs S}
    (h : prog[pc]? = some (.jump k)) : Steps S prog pc σ (pc + 1 + k) σ :=
  ⟨1, fun K => by rw [Nat.add_comm]; simp [execLFlat, h]⟩

theorem step_jumpBack {prog : List LFlat} {pc : Nat} {k : Nat} {σ : Regs S}
    (h : prog[pc]? = some (.jumpBack k)) (hk : k ≤ pc + 1) : Steps S prog pc σ (pc + 1 - k) σ :=
  ⟨1, fun K => by rw [Nat.add_comm]; simp [execLFlat, h, hk]⟩

/-! ## the embedded core code -/

/-- the outcome of a piece of `Code` at `base`: it runs to its end, or faults -/
def BaseSim (S : Sem) (prog : List LFlat) (base : Nat) (c : Code) (σ : Regs S) : Prop :=
  match exec S c σ with
  | some σ' => Steps S prog base σ (base + (flatten c).length) σ'
  | none => Fails S prog base σ

theorem base_sim : ∀ (c : Code) (prog : List LFlat) (base : Nat) (σ : Regs S),
    At prog base ((flatten c).map LFlat.ofFlat) → BaseSim S prog base c σ := by
  intro c
  induction c with
  | nil =>
    intro prog base σ _
    simp only [BaseSim, exec, flatten, List.length_nil, Nat.add_zero]
    exact Steps.refl _ _ _
  | instr i =>
    intro prog base σ h
    simp only [flatten, List.map_cons, List.map_nil, LFlat.ofFlat] at h
    simp only [BaseSim, exec, flatten, List.length_cons, List.length_nil, Nat.zero_add]
    cases hs : stepInstr S i σ with
    | some σ1 => exact step_op h.head hs
    | none => exact step_op_fail h.head hs
  | seq a b iha ihb =>
    intro prog base σ h
    simp only [flatten, List.map_append] at h
    have ha := iha prog base σ h.left
    have hb := fun σ1 => ihb prog (base + (flatten a).length) σ1 (by simpa using h.right)
    simp only [BaseSim, exec, flatten, List.length_append] at ha ⊢
    cases hea : exec S a σ with
    | none => simp only [hea] at ha ⊢; exact ha
    | some σ1 =>
      simp only [hea] at ha ⊢
      have hb1 := hb σ1
      simp only [BaseSim] at hb1
      cases heb : exec S b σ1 with
      | none => simp only [heb] at hb1 ⊢; exact ha.fails hb1
      | some σ2 =>
        simp only [heb] at hb1 ⊢
        exact (ha.trans hb1).cast (by omega)
  | jumpIfFalse r body ih =>
    intro prog base σ h
    simp only [flatten, List.map_cons, LFlat.ofFlat] at h
    have hb := ih prog (base + 1) σ h.tail
    have hj := step_jif (S := S) (σ := σ) h.head
    simp only [BaseSim, exec, flatten, List.length_cons] at hb ⊢
    by_cases ht : S.truthy (σ r) = true
    · simp only [ht, if_true] at hj ⊢
      cases heb : exec S body σ with
      | none => simp only [heb] at hb ⊢; exact hj.fails hb
      | some σ1 => simp only [heb] at hb ⊢; exact (hj.trans hb).cast (by omega)
    · simp only [ht, Bool.false_eq_true, if_false] at hj ⊢
      exact hj.cast (by omega)
  | jumpIfTrue r body ih =>
    intro prog base σ h
    simp only [flatten, List.map_cons, LFlat.ofFlat] at h
    have hb := ih prog (base + 1) σ h.tail
    have hj := step_jit (S := S) (σ := σ) h.head
    simp only [BaseSim, exec, flatten, List.length_cons] at hb ⊢
    by_cases ht : S.truthy (σ r) = true
    · simp only [ht, if_true] at hj ⊢
      exact hj.cast (by omega)
    · simp only [ht, Bool.false_eq_true, if_false] at hj ⊢
      cases heb : exec S body σ with
      | none => simp only [heb] at hb ⊢; exact hj.fails hb
      | some σ1 => simp only [heb] at hb ⊢; exact (hj.trans hb).cast (by omega)
  | ifElse r t wj e iht ihe =>
    intro prog base σ h
    cases wj with
    | true =>
      simp only [flatten, if_true, List.map_cons, List.map_append, LFlat.ofFlat] at h
      have h' : At prog (base + 1) ((flatten t).map LFlat.ofFlat ++ (LFlat.jump (flatten e).length :: (flatten e).map LFlat.ofFlat)) := h.tail
      have ht' := iht prog (base + 1) σ h'.left
      have hjmp : prog[base + 1 + (flatten t).length]? = some (LFlat.jump (flatten e).length) := by
        have := h'.right.head; simpa using this
      have he' := fun σ1 => ihe prog (base + 1 + (flatten t).length + 1) σ1 (by
        have := h'.right.tail; simpa using this)
      have hj := step_jif (S := S) (σ := σ) h.head
      simp only [BaseSim, exec, flatten, if_true, List.length_cons, List.length_append] at ht' ⊢
      by_cases htr : S.truthy (σ r) = true
      · simp only [htr, if_true] at hj ⊢
        cases het : exec S t σ with
        | none => simp only [het] at ht' ⊢; exact hj.fails ht'
        | some σ1 =>
          simp only [het] at ht' ⊢
          exact ((hj.trans ht').trans (step_jump hjmp)).cast (by omega)
      · simp only [htr, Bool.false_eq_true, if_false] at hj ⊢
        have he1 := he' σ
        simp only [BaseSim] at he1
        cases hee : exec S e σ with
        | none => simp only [hee] at he1 ⊢; exact (hj.cast (by omega)).fails he1
        | some σ1 =>
          simp only [hee] at he1 ⊢
          exact ((hj.cast (by omega)).trans he1).cast (by omega)
    | false =>
      simp only [flatten, Bool.false_eq_true, if_false, List.map_cons, List.map_append, LFlat.ofFlat] at h
      have h' : At prog (base + 1) ((flatten t).map LFlat.ofFlat ++ (flatten e).map LFlat.ofFlat) := h.tail
      have ht' := iht prog (base + 1) σ h'.left
      have he' := fun σ1 => ihe prog (base + 1 + (flatten t).length) σ1 (by
        have := h'.right; simpa using this)
      have hj := step_jif (S := S) (σ := σ) h.head
      simp only [BaseSim, exec, flatten, Bool.false_eq_true, if_false, List.length_cons, List.length_append] at ht' ⊢
      by_cases htr : S.truthy (σ r) = true
      · simp only [htr, if_true] at hj ⊢
        cases het : exec S t σ with
        | none => simp only [het] at ht' ⊢; exact hj.fails ht'
        | some σ1 =>
          simp only [het] at ht' ⊢
          have he1 := he' σ1
          simp only [BaseSim] at he1
          cases hee : exec S e σ1 with
          | none => simp only [hee] at he1 ⊢; exact (hj.trans ht').fails he1
          | some σ2 =>
            simp only [hee] at he1 ⊢
            exact ((hj.trans ht').trans he1).cast (by omega)
      · simp only [htr, Bool.false_eq_true, if_false] at hj ⊢
        have he1 := he' σ
        simp only [BaseSim] at he1
        cases hee : exec S e σ with
        | none => simp only [hee] at he1 ⊢; exact hj.fails he1
        | some σ1 =>
          simp only [hee] at he1 ⊢
          exact (hj.trans he1).cast (by omega)

/-! ## loop code -/

theorem Res.andThen_eq_err {α : Type} {r : Res (Sig × α)} {k : α → Res (Sig × α)}
    (h : r.andThen k = .err) : r = .err ∨ ∃ a, r = .ok (.normal, a) ∧ k a = .err := by
  unfold Res.andThen at h
  split at h
  · rename_i a; exact Or.inr ⟨a, rfl, h⟩
  · exact Or.inl h

theorem Res.loopNext_eq_err {α : Type} {r : Res (Sig × α)} {k : α → Res (Sig × α)}
    (h : r.loopNext k = .err) : r = .err ∨ ∃ s a, s ≠ .brk ∧ r = .ok (s, a) ∧ k a = .err := by
  unfold Res.loopNext at h
  split at h
  · cases h
  · rename_i s a hne
    refine Or.inr ⟨s, a, ?_, rfl, h⟩
    intro hs; subst hs; exact hne rfl
  · exact Or.inl h

theorem flatHdr_length (cond : Option (Code × Reg × Bool)) (bl : Nat) :
    (flatHdr cond bl).length = hdrLen cond := by
  cases cond with
  | none => rfl
  | some p => obtain ⟨cc, r, neg⟩ := p; simp [flatHdr, hdrLen]

theorem sizeL_flatAux : ∀ (c : LCode) (pre post : Nat), (flatAux c pre post).length = sizeL c := by
  intro c
  induction c with
  | base c => intro pre post; simp [flatAux, sizeL]
  | seq a b iha ihb => intro pre post; simp [flatAux, sizeL, iha, ihb]
  | ifElse r t wj e iht ihe =>
    intro pre post
    cases wj <;> simp [flatAux, sizeL, iht, ihe] <;> omega
  | loop cond body ih => intro pre post; simp [flatAux, sizeL, ih, flatHdr_length]; omega
  | brk => intro pre post; rfl
  | cont => intro pre post; rfl

/-- the outcome of a loop header at `base`: on to the body, or out of the loop (over the body of
`bl` instructions and the final JumpBack), or a fault -/
def HdrSim (S : Sem) (prog : List LFlat) (base : Nat) (cond : Option (Code × Reg × Bool)) (bl : Nat)
    (σ : Regs S) : Prop :=
  match execCond S cond σ with
  | some (true, σ1) => Steps S prog base σ (base + hdrLen cond) σ1
  | some (false, σ1) => Steps S prog base σ (base + hdrLen cond + bl + 1) σ1
  | none => Fails S prog base σ

theorem hdr_sim (cond : Option (Code × Reg × Bool)) (bl : Nat) (prog : List LFlat) (base : Nat) (σ : Regs S)
    (h : At prog base (flatHdr cond bl)) : HdrSim S prog base cond bl σ := by
  cases cond with
  | none =>
    simp only [HdrSim, execCond, hdrLen, Nat.add_zero]
    exact Steps.refl _ _ _
  | some p =>
    obtain ⟨cc, r, neg⟩ := p
    simp only [flatHdr] at h
    have hb := base_sim (S := S) cc prog base σ h.left
    have hj := h.right.head
    simp only [List.length_map] at hj
    simp only [BaseSim] at hb
    simp only [HdrSim, execCond, hdrLen]
    cases he : exec S cc σ with
    | none => simp only [he] at hb ⊢; exact hb
    | some σ1 =>
      simp only [he] at hb ⊢
      cases neg with
      | false =>
        simp only [Bool.false_eq_true, if_false] at hj
        have hs := step_jif (S := S) (σ := σ1) hj
        by_cases ht : S.truthy (σ1 r) = true
        · simp only [ht, if_true] at hs
          simp only [ht, Bool.bne_false]
          exact (hb.trans hs).cast (by omega)
        · simp only [ht, Bool.false_eq_true, if_false] at hs
          have ht' : S.truthy (σ1 r) = false := by simpa using ht
          simp only [ht', Bool.bne_false]
          exact (hb.trans hs).cast (by omega)
      | true =>
        simp only [if_true] at hj
        have hs := step_jit (S := S) (σ := σ1) hj
        by_cases ht : S.truthy (σ1 r) = true
        · simp only [ht, if_true] at hs
          simp only [ht, bne_self_eq_false]
          exact (hb.trans hs).cast (by omega)
        · simp only [ht, Bool.false_eq_true, if_false] at hs
          have ht' : S.truthy (σ1 r) = false := by simpa using ht
          simp only [ht']
          exact (hb.trans hs).cast (by omega)

/-- where a piece of code at `base` ends up, by completion signal -/
def target (base pre post : Nat) (c : LCode) : Sig → Nat
  | .normal => base + sizeL c
  | .brk => base + sizeL c + post
  | .cont => base - pre

theorem flat_sim : ∀ (n : Nat) (c : LCode) (pre post : Nat) (prog : List LFlat) (base : Nat) (σ : Regs S),
    At prog base (flatAux c pre post) → pre ≤ base →
    (∀ sg σ', execL S n c σ = .ok (sg, σ') → Steps S prog base σ (target base pre post c sg) σ') ∧
    (execL S n c σ = .err → Fails S prog base σ) := by
  intro n
  induction n with
  | zero =>
    intro c pre post prog base σ _ _
    exact ⟨fun _ _ h => by simp [execL] at h, fun h => by simp [execL] at h⟩
  | succ n ih =>
    intro c pre post prog base σ hat hpre
    cases c with
    | base c =>
      have hb := base_sim (S := S) c prog base σ (by simpa [flatAux] using hat)
      simp only [BaseSim] at hb
      rw [execL_base]
      cases he : exec S c σ with
      | none => simp only [he] at hb ⊢; exact ⟨fun _ _ h => (by cases h), fun _ => hb⟩
      | some σ1 =>
        simp only [he] at hb ⊢
        refine ⟨fun sg σ' h => ?_, fun h => by cases h⟩
        simp only [Res.ok.injEq, Prod.mk.injEq] at h
        obtain ⟨rfl, rfl⟩ := h
        exact hb
    | brk =>
      rw [execL_brk]
      refine ⟨fun sg σ' h => ?_, fun h => by cases h⟩
      simp only [Res.ok.injEq, Prod.mk.injEq] at h
      obtain ⟨rfl, rfl⟩ := h
      have hs := step_jump (S := S) (σ := σ) (At.head (L := []) hat)
      exact hs.cast (by simp only [target, sizeL]; try omega)
    | cont =>
      rw [execL_cont]
      refine ⟨fun sg σ' h => ?_, fun h => by cases h⟩
      simp only [Res.ok.injEq, Prod.mk.injEq] at h
      obtain ⟨rfl, rfl⟩ := h
      have hs := step_jumpBack (S := S) (σ := σ) (At.head (L := []) hat) (by omega)
      exact hs.cast (by simp only [target]; omega)
    | seq a b =>
      simp only [flatAux] at hat
      have hla : (flatAux a pre (sizeL b + post)).length = sizeL a := sizeL_flatAux _ _ _
      have iha := ih a pre (sizeL b + post) prog base σ hat.left hpre
      have ihb := fun σ1 => ih b (pre + sizeL a) post prog (base + sizeL a) σ1
        (by have := hat.right; rwa [hla] at this) (by omega)
      rw [execL_seq]
      constructor
      · intro sg σ' h
        rcases Res.andThen_ok h with ⟨σ1, h1, h2⟩ | ⟨hne, h1⟩
        · have s1 := iha.1 _ _ h1
          have s2 := (ihb σ1).1 _ _ h2
          exact (s1.trans s2).cast (by cases sg <;> simp only [target, sizeL] <;> omega)
        · have s1 := iha.1 _ _ h1
          exact s1.cast (by cases sg <;> simp only [target, sizeL] <;> first | omega | exact absurd rfl hne)
      · intro h
        rcases Res.andThen_eq_err h with h1 | ⟨σ1, h1, h2⟩
        · exact iha.2 h1
        · exact (iha.1 _ _ h1).fails ((ihb σ1).2 h2)
    | ifElse r t wj e =>
      cases wj with
      | true =>
        simp only [flatAux] at hat
        have hlt : (flatAux t (pre + 1) (1 + sizeL e + post)).length = sizeL t := sizeL_flatAux _ _ _
        have hat' := hat.tail
        have iht := ih t (pre + 1) (1 + sizeL e + post) prog (base + 1) σ hat'.left (by omega)
        have hjmp : prog[base + 1 + sizeL t]? = some (LFlat.jump (sizeL e)) := by
          have := hat'.right.head; rwa [hlt] at this
        have ihe := ih e (pre + 1 + sizeL t + 1) post prog (base + 1 + sizeL t + 1) σ
          (by have := hat'.right.tail; rwa [hlt] at this) (by omega)
        have hj := step_jif (S := S) (σ := σ) hat.head
        rw [execL_ifElse]
        by_cases htr : S.truthy (σ r) = true
        · simp only [htr, if_true] at hj ⊢
          constructor
          · intro sg σ' h
            rcases Res.andThen_ok h with ⟨σ1, h1, h2⟩ | ⟨hne, h1⟩
            · simp only [Res.ok.injEq, Prod.mk.injEq] at h2
              obtain ⟨rfl, rfl⟩ := h2
              exact ((hj.trans (iht.1 _ _ h1)).trans (step_jump hjmp)).cast
                (by simp only [target, sizeL, if_true]; omega)
            · exact (hj.trans (iht.1 _ _ h1)).cast
                (by cases sg <;> simp only [target, sizeL, if_true] <;> first | omega | exact absurd rfl hne)
          · intro h
            rcases Res.andThen_eq_err h with h1 | ⟨σ1, _, h2⟩
            · exact hj.fails (iht.2 h1)
            · cases h2
        · simp only [htr, Bool.false_eq_true, if_false] at hj ⊢
          constructor
          · intro sg σ' h
            exact ((hj.cast (by omega)).trans (ihe.1 _ _ h)).cast
              (by cases sg <;> simp only [target, sizeL, if_true] <;> omega)
          · intro h
            exact (hj.cast (by omega)).fails (ihe.2 h)
      | false =>
        simp only [flatAux] at hat
        have hlt : (flatAux t (pre + 1) (sizeL e + post)).length = sizeL t := sizeL_flatAux _ _ _
        have hat' := hat.tail
        have iht := ih t (pre + 1) (sizeL e + post) prog (base + 1) σ hat'.left (by omega)
        have ihe := fun σ1 => ih e (pre + 1 + sizeL t) post prog (base + 1 + sizeL t) σ1
          (by have := hat'.right; rwa [hlt] at this) (by omega)
        have hj := step_jif (S := S) (σ := σ) hat.head
        rw [execL_ifElse]
        by_cases htr : S.truthy (σ r) = true
        · simp only [htr, if_true, Bool.false_eq_true, if_false] at hj ⊢
          constructor
          · intro sg σ' h
            rcases Res.andThen_ok h with ⟨σ1, h1, h2⟩ | ⟨hne, h1⟩
            · exact ((hj.trans (iht.1 _ _ h1)).trans ((ihe σ1).1 _ _ h2)).cast
                (by cases sg <;> simp only [target, sizeL, Bool.false_eq_true, if_false] <;> omega)
            · exact (hj.trans (iht.1 _ _ h1)).cast
                (by cases sg <;> simp only [target, sizeL, Bool.false_eq_true, if_false] <;>
                      first | omega | exact absurd rfl hne)
          · intro h
            rcases Res.andThen_eq_err h with h1 | ⟨σ1, h1, h2⟩
            · exact hj.fails (iht.2 h1)
            · exact (hj.trans (iht.1 _ _ h1)).fails ((ihe σ1).2 h2)
        · simp only [htr, Bool.false_eq_true, if_false] at hj ⊢
          constructor
          · intro sg σ' h
            exact (hj.trans ((ihe σ).1 _ _ h)).cast
              (by cases sg <;> simp only [target, sizeL, Bool.false_eq_true, if_false] <;> omega)
          · intro h
            exact hj.fails ((ihe σ).2 h)
    | loop cond body =>
      have hself := fun σ2 => ih (.loop cond body) pre post prog base σ2 hat hpre
      simp only [flatAux] at hat
      have hl1 : (flatHdr cond (sizeL body)).length = hdrLen cond := flatHdr_length _ _
      have hl2 : (flatAux body (hdrLen cond) 1).length = sizeL body := sizeL_flatAux _ _ _
      have hh := hdr_sim (S := S) cond (sizeL body) prog base σ hat.left.left
      have hbody := fun σ1 => ih body (hdrLen cond) 1 prog (base + hdrLen cond) σ1
        (by have := hat.left.right; rwa [hl1] at this) (by omega)
      have hjb : prog[base + hdrLen cond + sizeL body]? = some (LFlat.jumpBack (hdrLen cond + sizeL body + 1)) := by
        have := hat.right.head
        rwa [List.length_append, hl1, hl2, ← Nat.add_assoc] at this
      simp only [HdrSim] at hh
      rw [execL_loop]
      cases hc : execCond S cond σ with
      | none => simp only [hc] at hh ⊢; exact ⟨fun _ _ h => (by cases h), fun _ => hh⟩
      | some p =>
        obtain ⟨go, σ1⟩ := p
        cases go with
        | false =>
          simp only [hc] at hh ⊢
          refine ⟨fun sg σ' h => ?_, fun h => by cases h⟩
          simp only [Res.ok.injEq, Prod.mk.injEq] at h
          obtain ⟨rfl, rfl⟩ := h
          exact hh.cast (by simp only [target, sizeL]; omega)
        | true =>
          simp only [hc] at hh ⊢
          have toStart : ∀ s σ2, s ≠ Sig.brk → execL S n body σ1 = .ok (s, σ2) →
              Steps S prog (base + hdrLen cond) σ1 base σ2 := by
            intro s σ2 hs h1
            have sb := (hbody σ1).1 _ _ h1
            cases s with
            | brk => exact absurd rfl hs
            | normal =>
              simp only [target] at sb
              exact (sb.trans (step_jumpBack hjb (by omega))).cast (by omega)
            | cont =>
              simp only [target] at sb
              exact sb.cast (by omega)
          constructor
          · intro sg σ' h
            rcases Res.loopNext_ok h with ⟨rfl, h1⟩ | ⟨s, σ2, hs, h1, h2⟩
            · exact (hh.trans ((hbody σ1).1 _ _ h1)).cast (by simp only [target, sizeL]; omega)
            · exact (hh.trans (toStart s σ2 hs h1)).trans ((hself σ2).1 _ _ h2)
          · intro h
            rcases Res.loopNext_eq_err h with h1 | ⟨s, σ2, hs, h1, h2⟩
            · exact hh.fails ((hbody σ1).2 h1)
            · exact (hh.trans (toStart s σ2 hs h1)).fails ((hself σ2).2 h2)

/-! ## closed code: `brk` / `cont` only inside loops -/

/-- `brk` / `cont` occur only inside a `loop` (or anywhere, when `inLoop`) -/
def closedL (inLoop : Bool) : LCode → Bool
  | .base _ => true
  | .seq a b => closedL inLoop a && closedL inLoop b
  | .ifElse _ t _ e => closedL inLoop t && closedL inLoop e
  | .loop _ body => closedL true body
  | .brk | .cont => inLoop

theorem compileS_closed : ∀ (s : Stmt) (il : Bool) (F : Frame) (code : LCode) (F' : Frame),
    compileS s il F = some (code, F') → closedL il code = true := by
  intro s
  induction s with
  | expr e =>
    intro il F code F' h
    simp only [compileS, bind, Option.bind_eq_some_iff, Prod.exists, pure, Option.some.injEq, Prod.mk.injEq] at h
    obtain ⟨c, o, F1, _, rfl, _⟩ := h
    rfl
  | seq a b iha ihb =>
    intro il F code F' h
    simp only [compileS, bind, Option.bind_eq_some_iff, Prod.exists, pure, Option.some.injEq, Prod.mk.injEq] at h
    obtain ⟨ca, F1, ha, cb, F2, hb, rfl, _⟩ := h
    simp [closedL, iha il F ca F1 ha, ihb il F1 cb F2 hb]
  | ite c t e iht ihe =>
    intro il F code F' h
    simp only [compileS, bind, Option.bind_eq_some_iff, Prod.exists, pure, Option.some.injEq, Prod.mk.injEq] at h
    obtain ⟨cc, rc, F1, _, ct, F2, ht, ce, F3, he, rfl, _⟩ := h
    simp [closedL, iht il F1 ct F2 ht, ihe il F2 ce F3 he]
  | ifThen c t iht =>
    intro il F code F' h
    simp only [compileS, bind, Option.bind_eq_some_iff, Prod.exists, pure, Option.some.injEq, Prod.mk.injEq] at h
    obtain ⟨cc, rc, F1, _, ct, F2, ht, rfl, _⟩ := h
    simp [closedL, iht il F1 ct F2 ht]
  | loop cond b ihb =>
    intro il F code F' h
    simp only [compileS, bind, Option.bind_eq_some_iff, Prod.exists, pure, Option.some.injEq, Prod.mk.injEq] at h
    obtain ⟨hdr, F1, _, cb, F2, hb, rfl, _⟩ := h
    simp [closedL, ihb true F1 cb F2 hb]
  | brk | cont =>
    intro il F code F' h
    simp only [compileS] at h
    split at h
    · rename_i hil; simp at h; obtain ⟨rfl, _⟩ := h; simpa [closedL] using hil
    · cases h

/-- closed code never ends with a pending `brk` / `cont` -/
theorem execL_closed_normal : ∀ (n : Nat) (c : LCode), closedL false c = true →
    ∀ (σ σ' : Regs S) (sg : Sig), execL S n c σ = .ok (sg, σ') → sg = .normal := by
  intro n
  induction n with
  | zero => intro c _ σ σ' sg h; simp [execL] at h
  | succ n ih =>
    intro c hcl σ σ' sg h
    cases c with
    | base c =>
      rw [execL_base] at h
      cases he : exec S c σ with
      | none => simp [he] at h
      | some σ1 => simp only [he, Res.ok.injEq, Prod.mk.injEq] at h; exact h.1.symm
    | brk => simp [closedL] at hcl
    | cont => simp [closedL] at hcl
    | seq a b =>
      simp only [closedL, Bool.and_eq_true] at hcl
      rw [execL_seq] at h
      rcases Res.andThen_ok h with ⟨σ1, _, h2⟩ | ⟨hne, h1⟩
      · exact ih b hcl.2 σ1 σ' sg h2
      · exact absurd (ih a hcl.1 σ σ' sg h1) hne
    | ifElse r t wj e =>
      simp only [closedL, Bool.and_eq_true] at hcl
      rw [execL_ifElse] at h
      split at h
      · rcases Res.andThen_ok h with ⟨σ1, _, h2⟩ | ⟨hne, h1⟩
        · split at h2
          · simp only [Res.ok.injEq, Prod.mk.injEq] at h2; exact h2.1.symm
          · exact ih e hcl.2 σ1 σ' sg h2
        · exact absurd (ih t hcl.1 σ σ' sg h1) hne
      · exact ih e hcl.2 σ σ' sg h
    | loop cond body =>
      rw [execL_loop] at h
      cases hc : execCond S cond σ with
      | none => simp [hc] at h
      | some p =>
        obtain ⟨go, σ1⟩ := p
        cases go with
        | false => simp only [hc, Res.ok.injEq, Prod.mk.injEq] at h; exact h.1.symm
        | true =>
          simp only [hc] at h
          rcases Res.loopNext_ok h with ⟨rfl, _⟩ | ⟨s, σ2, _, _, h2⟩
          · rfl
          · exact ih _ hcl σ2 σ' sg h2

/-- **flattenL is correct**: whenever the structured code completes, the flat stream run from pc 0
falls off its end (pc = length) with the same registers, for every sufficiently large fuel -/
theorem flattenL_ok {c : LCode} (hcl : closedL false c = true) {n : Nat} {σ σ' : Regs S} {sg : Sig}
    (h : execL S n c σ = .ok (sg, σ')) :
    sg = .normal ∧ ∃ m, ∀ K, m ≤ K → execLFlat S (flattenL c) K 0 σ = .ok σ' := by
  have hsg := execL_closed_normal n c hcl σ σ' sg h
  subst hsg
  refine ⟨rfl, ?_⟩
  obtain ⟨m, hm⟩ := (flat_sim n c 0 0 (flattenL c) 0 σ (At.whole _) (Nat.le_refl _)).1 _ _ h
  refine ⟨m + 1, fun K hK => ?_⟩
  obtain ⟨K', rfl⟩ : ∃ K', K = m + (K' + 1) := ⟨K - m - 1, by omega⟩
  rw [hm]
  have hlen : target 0 0 0 c Sig.normal = (flattenL c).length := by
    simp only [target, flattenL, sizeL_flatAux, Nat.zero_add]
  rw [hlen]
  simp [execLFlat]

/-- a fault of the structured code is a fault of the flat stream -/
theorem flattenL_err {c : LCode} {n : Nat} {σ : Regs S} (h : execL S n c σ = .err) :
    ∃ m, ∀ K, m ≤ K → execLFlat S (flattenL c) K 0 σ = .err := by
  obtain ⟨m, hm⟩ := (flat_sim n c 0 0 (flattenL c) 0 σ (At.whole _) (Nat.le_refl _)).2 h
  refine ⟨m, fun K hK => ?_⟩
  obtain ⟨K', rfl⟩ : ∃ K', K = m + K' := ⟨K - m, by omega⟩
  exact hm K'

end KotoVerif.Compile
