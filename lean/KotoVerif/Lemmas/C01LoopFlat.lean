/-
C01 layer 5, loop layer: the flat instruction stream with forward jumps and `JumpBack`
(`flattenL`, pc-based executor `execLFlat`) simulates the structured loop code (`execL`):
`flat_sim`. A piece of code embedded at `base` in a program runs from `base` to

  * `base + sizeL c`           when it completes normally,
  * `base + sizeL c + post`    when it breaks   (the instruction after the loop's final JumpBack),
  * `base - pre`               when it continues (the loop start),

and a fault of the structured code is a fault of the flat run.
-/
import KotoVerif.Model.CompileLoop

namespace KotoVerif.Compile

variable {S : Sem}

/-! ## programs containing a piece of code at a position -/

/-- `prog` contains the instructions `L` at position `base` -/
def At (prog : List LFlat) (base : Nat) (L : List LFlat) : Prop :=
  ∃ A B, prog = A ++ L ++ B ∧ A.length = base

theorem At.left {prog : List LFlat} {base : Nat} {L1 L2 : List LFlat} (h : At prog base (L1 ++ L2)) :
    At prog base L1 := by
  obtain ⟨A, B, h1, h2⟩ := h
  exact ⟨A, L2 ++ B, by simp [h1], h2⟩

theorem At.right {prog : List LFlat} {base : Nat} {L1 L2 : List LFlat} (h : At prog base (L1 ++ L2)) :
    At prog (base + L1.length) L2 := by
  obtain ⟨A, B, h1, h2⟩ := h
  exact ⟨A ++ L1, B, by simp [h1], by simp [h2]⟩

theorem At.head {prog : List LFlat} {base : Nat} {i : LFlat} {L : List LFlat} (h : At prog base (i :: L)) :
    prog[base]? = some i := by
  obtain ⟨A, B, h1, h2⟩ := h
  subst h1 h2
  simp

theorem At.tail {prog : List LFlat} {base : Nat} {i : LFlat} {L : List LFlat} (h : At prog base (i :: L)) :
    At prog (base + 1) L := by
  have : At prog base ([i] ++ L) := h
  exact this.right

theorem At.whole (L : List LFlat) : At L 0 L := ⟨[], [], by simp, rfl⟩

/-! ## runs -/

/-- from `(pc, σ)` the program reaches `(pc', σ')` (in some number of steps, whatever fuel is left) -/
def Steps (S : Sem) (prog : List LFlat) (pc : Nat) (σ : Regs S) (pc' : Nat) (σ' : Regs S) : Prop :=
  ∃ m, ∀ K, execLFlat S prog (m + K) pc σ = execLFlat S prog K pc' σ'

/-- from `(pc, σ)` the program faults -/
def Fails (S : Sem) (prog : List LFlat) (pc : Nat) (σ : Regs S) : Prop :=
  ∃ m, ∀ K, execLFlat S prog (m + K) pc σ = .err

theorem Steps.refl (prog : List LFlat) (pc : Nat) (σ : Regs S) : Steps S prog pc σ pc σ :=
  ⟨0, fun K => by rw [Nat.zero_add]⟩

theorem Steps.trans {prog : List LFlat} {p1 p2 p3 : Nat} {σ1 σ2 σ3 : Regs S}
    (h1 : Steps S prog p1 σ1 p2 σ2) (h2 : Steps S prog p2 σ2 p3 σ3) : Steps S prog p1 σ1 p3 σ3 := by
  obtain ⟨m1, e1⟩ := h1
  obtain ⟨m2, e2⟩ := h2
  exact ⟨m1 + m2, fun K => by rw [Nat.add_assoc, e1, e2]⟩

theorem Steps.fails {prog : List LFlat} {p1 p2 : Nat} {σ1 σ2 : Regs S}
    (h1 : Steps S prog p1 σ1 p2 σ2) (h2 : Fails S prog p2 σ2) : Fails S prog p1 σ1 := by
  obtain ⟨m1, e1⟩ := h1
  obtain ⟨m2, e2⟩ := h2
  exact ⟨m1 + m2, fun K => by rw [Nat.add_assoc, e1, e2]⟩

theorem Steps.cast {prog : List LFlat} {p1 p2 p2' : Nat} {σ1 σ2 : Regs S}
    (h : Steps S prog p1 σ1 p2 σ2) (hp : p2 = p2') : Steps S prog p1 σ1 p2' σ2 := hp ▸ h

theorem step_op {prog : List LFlat} {pc : Nat} {i : Instr} {σ σ1 : Regs S}
    (h : prog[pc]? = some (.op i)) (hs : stepInstr S i σ = some σ1) : Steps S prog pc σ (pc + 1) σ1 :=
  ⟨1, fun K => by rw [Nat.add_comm]; simp [execLFlat, h, hs]⟩

theorem step_op_fail {prog : List LFlat} {pc : Nat} {i : Instr} {σ : Regs S}
    (h : prog[pc]? = some (.op i)) (hs : stepInstr S i σ = none) : Fails S prog pc σ :=
  ⟨1, fun K => by rw [Nat.add_comm]; simp [execLFlat, h, hs]⟩

theorem step_jif {prog : List LFlat} {pc : Nat} {r : Reg} {k : Nat} {σ : Regs S}
    (h : prog[pc]? = some (.jumpIfFalse r k)) :
    Steps S prog pc σ (if S.truthy (σ r) then pc + 1 else pc + 1 + k) σ :=
  ⟨1, fun K => by
    rw [Nat.add_comm]
    by_cases ht : S.truthy (σ r) = true <;> simp [execLFlat, h, ht]⟩

theorem step_jit {prog : List LFlat} {pc : Nat} {r : Reg} {k : Nat} {σ : Regs S}
    (h : prog[pc]? = some (.jumpIfTrue r k)) :
    Steps S prog pc σ (if S.truthy (σ r) then pc + 1 + k else pc + 1) σ :=
  ⟨1, fun K => by
    rw [Nat.add_comm]
    by_cases ht : S.truthy (σ r) = true <;> simp [execLFlat, h, ht]⟩

theorem step_jump {prog : List LFlat} {pc : Nat} {k : Nat} {σ : Regs S}
    (h : prog[pc]? = some (.jump k)) : Steps S prog pc σ (pc + 1 + k) σ :=
  ⟨1, fun K => by rw [Nat.add_comm]; simp [execLFlat, h]⟩

theorem step_jumpBack {prog : List LFlat} {pc : Nat} {k : Nat} {σ : Regs S}
    (h : prog[pc]? = some (.jumpBack k)) (hk : k ≤ pc + 1) : Steps S prog pc σ (pc + 1 - k) σ :=
  ⟨1, fun K => by rw [Nat.add_comm]; simp [execLFlat, h, hk]⟩

/-! ## the embedded core code -/

/-- the outcome of a piece of `Code` at `base`: it runs to its end, or faults -/
def BaseSim (S : Sem) (prog : List LFlat) (base : Nat) (c : Code) (σ : Regs S) : Prop :=
  match exec S c σ with
  | some σ' => Steps S prog base σ (base + (flatten c).length) σ'
  | none => Fails S prog base σ

theorem base_sim : ∀ (c : Code) (prog : List LFlat) (base : Nat) (σ : Regs S),
    At prog base ((flatten c).map LFlat.ofFlat) → BaseSim S prog base c σ := by
  intro c
  induction c with
  | nil =>
    intro prog base σ _
    simp only [BaseSim, exec, flatten, List.length_nil, Nat.add_zero]
    exact Steps.refl _ _ _
  | instr i =>
    intro prog base σ h
    simp only [flatten, List.map_cons, List.map_nil, LFlat.ofFlat] at h
    simp only [BaseSim, exec, flatten, List.length_cons, List.length_nil, Nat.zero_add]
    cases hs : stepInstr S i σ with
    | some σ1 => exact step_op h.head hs
    | none => exact step_op_fail h.head hs
  | seq a b iha ihb =>
    intro prog base σ h
    simp only [flatten, List.map_append] at h
    have ha := iha prog base σ h.left
    have hb := fun σ1 => ihb prog (base + (flatten a).length) σ1 (by simpa using h.right)
    simp only [BaseSim, exec, flatten, List.length_append] at ha ⊢
    cases hea : exec S a σ with
    | none => simp only [hea] at ha ⊢; exact ha
    | some σ1 =>
      simp only [hea] at ha ⊢
      have hb1 := hb σ1
      simp only [BaseSim] at hb1
      cases heb : exec S b σ1 with
      | none => simp only [heb] at hb1 ⊢; exact ha.fails hb1
      | some σ2 =>
        simp only [heb] at hb1 ⊢
        exact (ha.trans hb1).cast (by omega)
  | jumpIfFalse r body ih =>
    intro prog base σ h
    simp only [flatten, List.map_cons, LFlat.ofFlat] at h
    have hb := ih prog (base + 1) σ h.tail
    have hj := step_jif (S := S) (σ := σ) h.head
    simp only [BaseSim, exec, flatten, List.length_cons] at hb ⊢
    by_cases ht : S.truthy (σ r) = true
    · simp only [ht, if_true] at hj ⊢
      cases heb : exec S body σ with
      | none => simp only [heb] at hb ⊢; exact hj.fails hb
      | some σ1 => simp only [heb] at hb ⊢; exact (hj.trans hb).cast (by omega)
    · simp only [ht, Bool.false_eq_true, if_false] at hj ⊢
      exact hj.cast (by omega)
  | jumpIfTrue r body ih =>
    intro prog base σ h
    simp only [flatten, List.map_cons, LFlat.ofFlat] at h
    have hb := ih prog (base + 1) σ h.tail
    have hj := step_jit (S := S) (σ := σ) h.head
    simp only [BaseSim, exec, flatten, List.length_cons] at hb ⊢
    by_cases ht : S.truthy (σ r) = true
    · simp only [ht, if_true] at hj ⊢
      exact hj.cast (by omega)
    · simp only [ht, Bool.false_eq_true, if_false] at hj ⊢
      cases heb : exec S body σ with
      | none => simp only [heb] at hb ⊢; exact hj.fails hb
      | some σ1 => simp only [heb] at hb ⊢; exact (hj.trans hb).cast (by omega)
  | ifElse r t wj e iht ihe =>
    intro prog base σ h
    cases wj with
    | true =>
      simp only [flatten, if_true, List.map_cons, List.map_append, LFlat.ofFlat] at h
      have h' : At prog (base + 1) ((flatten t).map LFlat.ofFlat ++ (LFlat.jump (flatten e).length :: (flatten e).map LFlat.ofFlat)) := h.tail
      have ht' := iht prog (base + 1) σ h'.left
      have hjmp : prog[base + 1 + (flatten t).length]? = some (LFlat.jump (flatten e).length) := by
        have := h'.right.head; simpa using this
      have he' := fun σ1 => ihe prog (base + 1 + (flatten t).length + 1) σ1 (by
        have := h'.right.tail; simpa using this)
      have hj := step_jif (S := S) (σ := σ) h.head
      simp only [BaseSim, exec, flatten, if_true, List.length_cons, List.length_append] at ht' ⊢
      by_cases htr : S.truthy (σ r) = true
      · simp only [htr, if_true] at hj ⊢
        cases het : exec S t σ with
        | none => simp only [het] at ht' ⊢; exact hj.fails ht'
        | some σ1 =>
          simp only [het] at ht' ⊢
          exact ((hj.trans ht').trans (step_jump hjmp)).cast (by omega)
      · simp only [htr, Bool.false_eq_true, if_false] at hj ⊢
        have he1 := he' σ
        simp only [BaseSim] at he1
        cases hee : exec S e σ with
        | none => simp only [hee] at he1 ⊢; exact (hj.cast (by omega)).fails he1
        | some σ1 =>
          simp only [hee] at he1 ⊢
          exact ((hj.cast (by omega)).trans he1).cast (by omega)
    | false =>
      simp only [flatten, Bool.false_eq_true, if_false, List.map_cons, List.map_append, LFlat.ofFlat] at h
      have h' : At prog (base + 1) ((flatten t).map LFlat.ofFlat ++ (flatten e).map LFlat.ofFlat) := h.tail
      have ht' := iht prog (base + 1) σ h'.left
      have he' := fun σ1 => ihe prog (base + 1 + (flatten t).length) σ1 (by
        have := h'.right; simpa using this)
      have hj := step_jif (S := S) (σ := σ) h.head
      simp only [BaseSim, exec, flatten, Bool.false_eq_true, if_false, List.length_cons, List.length_append] at ht' ⊢
      by_cases htr : S.truthy (σ r) = true
      · simp only [htr, if_true] at hj ⊢
        cases het : exec S t σ with
        | none => simp only [het] at ht' ⊢; exact hj.fails ht'
        | some σ1 =>
          simp only [het] at ht' ⊢
          have he1 := he' σ1
          simp only [BaseSim] at he1
          cases hee : exec S e σ1 with
          | none => simp only [hee] at he1 ⊢; exact (hj.trans ht').fails he1
          | some σ2 =>
            simp only [hee] at he1 ⊢
            exact ((hj.trans ht').trans he1).cast (by omega)
      · simp only [htr, Bool.false_eq_true, if_false] at hj ⊢
        have he1 := he' σ
        simp only [BaseSim] at he1
        cases hee : exec S e σ with
        | none => simp only [hee] at he1 ⊢; exact hj.fails he1
        | some σ1 =>
          simp only [hee] at he1 ⊢
          exact (hj.trans he1).cast (by omega)

end KotoVerif.Compile
