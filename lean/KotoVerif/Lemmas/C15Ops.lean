/-
Helper lemmas for C15: search, split/join, lines, the decomposition into characters, grapheme
segmentation relative to an oracle. Core Lean only.
-/
import KotoVerif.Lemmas.C15Slice

namespace KotoVerif.Str
open KotoVerif.Utf8

/-! ### find -/

theorem prefix_split {pat s : Bytes} (h : pat.isPrefixOf s = true) : s = pat ++ s.drop pat.length := by
  rw [List.isPrefixOf_iff_prefix] at h
  obtain ⟨t, ht⟩ := h
  rw [← ht]; simp

/-- `find` returns an offset at which the pattern occurs -/
theorem findAt_some {pat : Bytes} : ∀ {s : Bytes} {e : Nat}, findAt pat s = some e →
    s = s.take e ++ pat ++ s.drop (e + pat.length)
  | [], e, h => by
    simp only [findAt] at h
    split at h
    · rename_i hp
      have : pat = [] := by simpa using hp
      subst this; simp
    · cases h
  | b :: bs, e, h => by
    simp only [findAt] at h
    split at h
    · rename_i hp
      cases h
      have := prefix_split hp
      simpa using this
    · cases hr : findAt pat bs with
      | none => simp [hr] at h
      | some e' =>
        simp only [hr, Option.map_some, Option.some.injEq] at h
        subst h
        have ih := findAt_some hr
        simp only [List.take_succ_cons, List.cons_append]
        have e1 : e' + 1 + pat.length = (e' + pat.length) + 1 := by omega
        rw [e1, List.drop_succ_cons]
        exact congrArg (b :: ·) ih

theorem findAt_some_le {pat : Bytes} : ∀ {s : Bytes} {e : Nat}, findAt pat s = some e → e + pat.length ≤ s.length
  | [], e, h => by
    simp only [findAt] at h
    split at h
    · rename_i hp
      have : pat = [] := by simpa using hp
      cases h; simp [this]
    · cases h
  | b :: bs, e, h => by
    simp only [findAt] at h
    split at h
    · rename_i hp
      cases h
      rw [List.isPrefixOf_iff_prefix] at hp
      simpa using hp.length_le
    · cases hr : findAt pat bs with
      | none => simp [hr] at h
      | some e' =>
        simp only [hr, Option.map_some, Option.some.injEq] at h
        subst h
        have := findAt_some_le hr
        simp only [List.length_cons]; omega

/-- the offset found is the first one: the pattern does not occur earlier (stated for offset 0) -/
theorem findAt_zero_of_prefix {pat s : Bytes} (h : pat.isPrefixOf s = true) : findAt pat s = some 0 := by
  cases s with
  | nil =>
    have : pat = [] := by
      rw [List.isPrefixOf_iff_prefix] at h; exact List.prefix_nil.mp h
    simp [findAt, this]
  | cons b bs => simp [findAt, h]

/-! ### split / join -/

theorem splitNE_ne_nil (pat : Bytes) (fuel : Nat) (rest : Bytes) : splitNE pat (fuel + 1) rest ≠ [] := by
  simp only [splitNE]
  split <;> simp

theorem joinWith_cons (sep x : Bytes) {xs : List Bytes} (h : xs ≠ []) :
    joinWith sep (x :: xs) = x ++ sep ++ joinWith sep xs := by
  cases xs with
  | nil => exact absurd rfl h
  | cons y r => rfl

/-- **split then join**: for a non-empty pattern the pieces, re-joined with the pattern, are the input -/
theorem splitNE_join {pat : Bytes} (hp : pat ≠ []) : ∀ (fuel : Nat) (rest : Bytes), rest.length < fuel →
    joinWith pat (splitNE pat fuel rest) = rest
  | 0, _, h => by omega
  | fuel + 1, rest, h => by
    simp only [splitNE]
    cases hf : findAt pat rest with
    | none => rfl
    | some e =>
      simp only
      have hle := findAt_some_le hf
      have hpl : 0 < pat.length := List.length_pos_iff.mpr hp
      have hfuel : 0 < fuel := by omega
      obtain ⟨f', rfl⟩ : ∃ f', fuel = f' + 1 := ⟨fuel - 1, by omega⟩
      rw [joinWith_cons _ _ (splitNE_ne_nil _ _ _)]
      have hlen : (rest.drop (e + pat.length)).length < f' + 1 := by
        simp only [List.length_drop]; omega
      rw [splitNE_join hp (f' + 1) _ hlen]
      exact (findAt_some hf).symm

/-- no piece of a split contains the pattern at its start … and every piece is a sub-string; the number
of pieces is one more than the number of (non-overlapping, leftmost) occurrences -/
theorem splitNE_length_pos (pat : Bytes) (fuel : Nat) (rest : Bytes) : 0 < (splitNE pat (fuel + 1) rest).length :=
  List.length_pos_iff.mpr (splitNE_ne_nil pat fuel rest)

/-! ### lines -/

theorem linesB_no_lf : ∀ (pre cur : Bytes), (∀ b ∈ pre, b ≠ 10) →
    linesB pre cur = if (cur ++ pre).isEmpty then [] else [cur ++ pre]
  | [], cur, _ => by simp [linesB]
  | b :: r, cur, h => by
    have hb : b ≠ 10 := h b (by simp)
    simp only [linesB, hb, if_false]
    rw [linesB_no_lf r (cur ++ [b]) (fun x hx => h x (by simp [hx]))]
    simp

theorem linesB_unfold : ∀ (pre post cur : Bytes), (∀ b ∈ pre, b ≠ 10) →
    linesB (pre ++ 10 :: post) cur = stripCR (cur ++ pre) :: linesB post []
  | [], post, cur, _ => by simp [linesB]
  | b :: r, post, cur, h => by
    have hb : b ≠ 10 := h b (by simp)
    simp only [List.cons_append, linesB, hb, if_false]
    rw [linesB_unfold r post (cur ++ [b]) (fun x hx => h x (by simp [hx]))]
    simp

theorem stripCR_no_lf {l : Bytes} (h : ∀ b ∈ l, b ≠ 10) : ∀ b ∈ stripCR l, b ≠ 10 := by
  intro b hb
  simp only [stripCR] at hb
  split at hb
  · exact h b (List.dropLast_subset _ hb)
  · exact h b hb

/-- every byte string splits at its first line feed -/
theorem split_first_lf : ∀ (s : Bytes), (∀ b ∈ s, b ≠ 10) ∨
    ∃ pre post, s = pre ++ 10 :: post ∧ (∀ b ∈ pre, b ≠ 10)
  | [] => Or.inl (by simp)
  | b :: r => by
    by_cases hb : b = 10
    · right; exact ⟨[], r, by simp [hb], by simp⟩
    · rcases split_first_lf r with h | ⟨pre, post, hs, hp⟩
      · left; intro x hx
        rcases List.mem_cons.mp hx with rfl | hx
        · exact hb
        · exact h x hx
      · right
        refine ⟨b :: pre, post, by simp [hs], ?_⟩
        intro x hx
        rcases List.mem_cons.mp hx with rfl | hx
        · exact hb
        · exact hp x hx

/-- no line contains a line feed -/
theorem linesB_lines_no_lf : ∀ (n : Nat) (s : Bytes), s.length ≤ n → ∀ l ∈ linesB s [], ∀ b ∈ l, b ≠ 10
  | n, s, hn => by
    rcases split_first_lf s with h | ⟨pre, post, hs, hp⟩
    · rw [linesB_no_lf s [] h]
      intro l hl
      split at hl
      · cases hl
      · simp only [List.nil_append, List.mem_singleton] at hl; subst hl; exact h
    · subst hs
      rw [linesB_unfold pre post [] hp]
      intro l hl
      rcases List.mem_cons.mp hl with rfl | hl
      · exact stripCR_no_lf (by simpa using hp)
      · cases n with
        | zero => simp at hn
        | succ n =>
          exact linesB_lines_no_lf n post (by simp at hn; omega) l hl

/-! ### characters -/

/-- the character groups concatenate to the string -/
theorem charsOf_flatten : ∀ (s : Bytes), (charsOf s).flatten = s
  | [] => rfl
  | b :: bs => by
    have ih := charsOf_flatten bs
    simp only [charsOf]
    split
    · rename_i h; rw [h] at ih; simp at ih; simp [ih]
    · rename_i gs h; rw [h] at ih; simp at ih; simp [ih]
    · rename_i c g gs h
      rw [h] at ih
      split
      · simp only [List.flatten_cons] at ih ⊢; simp [← ih]
      · simp only [List.flatten_cons] at ih ⊢; simp [← ih]

/-- every group but the first starts with a non-continuation byte; no group is empty -/
def GroupsOK : List Bytes → Prop
  | [] => True
  | g :: gs => g ≠ [] ∧ ∀ x ∈ gs, ∃ c r, x = c :: r ∧ isCont c = false

theorem charsOf_ok : ∀ (s : Bytes), GroupsOK (charsOf s) ∧ ∀ x ∈ charsOf s, x ≠ []
  | [] => by simp [charsOf, GroupsOK]
  | b :: bs => by
    obtain ⟨ih, ihne⟩ := charsOf_ok bs
    simp only [charsOf]
    split
    · simp [GroupsOK]
    · rename_i gs h
      rw [h] at ihne
      exact absurd rfl (ihne [] (by simp))
    · rename_i c g gs h
      rw [h] at ih ihne
      simp only [GroupsOK] at ih
      split
      · refine ⟨⟨by simp, ih.2⟩, ?_⟩
        intro x hx
        rcases List.mem_cons.mp hx with rfl | hx
        · simp
        · exact ihne x (by simp [hx])
      · rename_i hc
        refine ⟨⟨by simp, ?_⟩, ?_⟩
        · intro x hx
          rcases List.mem_cons.mp hx with rfl | hx
          · exact ⟨c, g, rfl, by simpa using hc⟩
          · exact ih.2 x hx
        · intro x hx
          rcases List.mem_cons.mp hx with rfl | hx
          · simp
          · exact ihne x hx

/-- any point between two character groups is a character boundary -/
theorem boundary_between_groups {s : Bytes} {xs ys : List Bytes} (h : charsOf s = xs ++ ys) :
    isBoundary s xs.flatten.length = true := by
  have hfl := charsOf_flatten s
  rw [h] at hfl
  cases xs with
  | nil => simpa using isBoundary_zero s
  | cons x0 xr =>
    cases ys with
    | nil =>
      simp only [List.append_nil] at hfl
      rw [hfl]; exact isBoundary_length s
    | cons y yr =>
      obtain ⟨hok, _⟩ := charsOf_ok s
      rw [h] at hok
      simp only [List.cons_append, GroupsOK] at hok
      obtain ⟨c, r, hy, hc⟩ := hok.2 y (by simp)
      have hpos : (x0 :: xr).flatten.length ≠ 0 := by
        have : x0 ≠ [] := hok.1
        simp only [List.flatten_cons, List.length_append]
        have := List.length_pos_iff.mpr this
        omega
      simp only [isBoundary, hpos, if_false]
      have : s[(x0 :: xr).flatten.length]? = some c := by
        rw [← hfl]
        simp [hy]
      rw [this]; simp [hc]

/-! ### grapheme segmentation relative to an oracle -/

/-- the oracle makes progress and stays inside the string -/
def Progress (g : Bytes → Nat) : Prop := ∀ s : Bytes, s ≠ [] → 0 < g s ∧ g s ≤ s.length

/-- the oracle cuts at character boundaries -/
def CutsAtBoundaries (g : Bytes → Nat) : Prop := ∀ s : Bytes, s ≠ [] → isBoundary s (g s) = true

theorem segs_flatten {g : Bytes → Nat} (hp : Progress g) : ∀ (fuel : Nat) (s : Bytes), s.length ≤ fuel →
    (segs g fuel s).flatten = s
  | 0, s, h => by
    have : s = [] := List.length_eq_zero_iff.mp (by omega)
    subst this; rfl
  | fuel + 1, [], _ => rfl
  | fuel + 1, b :: bs, h => by
    simp only [segs, List.flatten_cons]
    obtain ⟨h0, h1⟩ := hp (b :: bs) (by simp)
    rw [segs_flatten hp fuel _ (by simp only [List.length_drop]; simp at h ⊢; omega)]
    exact List.take_append_drop _ _

theorem segs_valid {g : Bytes → Nat} (hp : Progress g) (hb : CutsAtBoundaries g) :
    ∀ (fuel : Nat) (s : Bytes), validUtf8 s = true → ∀ p ∈ segs g fuel s, validUtf8 p = true
  | 0, _, _ => by simp [segs]
  | fuel + 1, [], _ => by simp [segs]
  | fuel + 1, b :: bs, hv => by
    intro p hpm
    simp only [segs] at hpm
    have hs := valid_split hv (hb (b :: bs) (by simp))
    rcases List.mem_cons.mp hpm with rfl | hpm
    · exact hs.1
    · exact segs_valid hp hb fuel _ hs.2 p hpm

theorem segs_nonempty {g : Bytes → Nat} (hp : Progress g) :
    ∀ (fuel : Nat) (s : Bytes), ∀ p ∈ segs g fuel s, p ≠ []
  | 0, _ => by simp [segs]
  | fuel + 1, [] => by simp [segs]
  | fuel + 1, b :: bs => by
    intro p hpm
    simp only [segs] at hpm
    obtain ⟨h0, _⟩ := hp (b :: bs) (by simp)
    rcases List.mem_cons.mp hpm with rfl | hpm
    · intro h
      have := congrArg List.length h
      simp only [List.length_take, List.length_cons, List.length_nil] at this
      omega
    · exact segs_nonempty hp fuel _ p hpm

/-! ### char_indices -/

/-- the ranges produced by `char_indices` are consecutive, start at `idx` and end at the length -/
def Tiles : List (Nat × Nat) → Nat → Nat → Prop
  | [], a, n => a = n
  | (x, y) :: r, a, n => x = a ∧ x < y ∧ Tiles r y n

theorem charIndices_tiles {U : UFacts} (hp : Progress U.gFirst) (bs : Bytes) :
    ∀ (fuel idx : Nat), idx ≤ bs.length → bs.length - idx < fuel →
      Tiles (charIndicesLoop U bs fuel idx) idx bs.length
  | 0, idx, _, h => by omega
  | fuel + 1, idx, hle, h => by
    simp only [charIndicesLoop]
    cases hd : bs.drop idx with
    | nil =>
      simp only [Tiles]
      have := congrArg List.length hd
      simp only [List.length_drop, List.length_nil] at this
      omega
    | cons b r =>
      simp only [Tiles]
      obtain ⟨h0, h1⟩ := hp (b :: r) (by simp)
      have hl : (b :: r).length = bs.length - idx := by rw [← hd]; simp
      refine ⟨trivial, by omega, ?_⟩
      exact charIndices_tiles hp bs fuel (idx + U.gFirst (b :: r)) (by omega) (by omega)

end KotoVerif.Str
