/-
C14 — `run_index_assign` (Map arm): the three IndexMap calls replace entry `i` in place whenever the
new key is not present at another index.
-/
import KotoVerif.Model.Equal
import KotoVerif.Lemmas.C14Map

namespace KotoVerif
namespace Equal
namespace OMap

variable {β : Type}

theorem insert_absent (m : Val → Val → Bool) (k : Val) (v : β) (es : List (Val × β))
    (h : ∀ e ∈ es, m k e.1 = false) : insert m k v es = (es ++ [(k, v)], none) := by
  induction es with
  | nil => rfl
  | cons e es ih =>
    obtain ⟨k', v'⟩ := e
    have h0 : m k k' = false := h (k', v') (by simp)
    simp only [insert, h0, Bool.false_eq_true, if_false]
    rw [ih (fun e he => h e (List.mem_cons_of_mem _ he))]
    rfl

theorem indexAssign_last (m : Val → Val → Bool) (k : Val) (v : β) (pre : List (Val × β)) (e : Val × β)
    (hk : ∀ x ∈ pre, m k x.1 = false) :
    indexAssign m pre.length k v (pre ++ [e]) = some (pre ++ [(k, v)]) := by
  have h1 : swapRemoveIndex pre.length (pre ++ [e]) = pre := by
    simp [swapRemoveIndex]
  unfold indexAssign
  rw [h1, insert_absent m k v pre hk]
  simp [swapIndices]

theorem indexAssign_inner (m : Val → Val → Bool) (k : Val) (v : β) (pre post : List (Val × β))
    (e l : Val × β) (hk : ∀ x ∈ pre ++ (post ++ [l]), m k x.1 = false) :
    indexAssign m pre.length k v (pre ++ e :: (post ++ [l])) = some (pre ++ (k, v) :: (post ++ [l])) := by
  have h1 : swapRemoveIndex pre.length (pre ++ e :: (post ++ [l])) = pre ++ l :: post := by
    have hlast : (pre ++ e :: (post ++ [l])).getLast? = some l := by
      rw [show pre ++ e :: (post ++ [l]) = (pre ++ e :: post) ++ [l] by simp]
      exact List.getLast?_concat
    unfold swapRemoveIndex
    simp only [hlast]
    have hlt : pre.length < (pre ++ e :: (post ++ [l])).length := by simp
    have hne : ¬ (pre.length + 1 = (pre ++ e :: (post ++ [l])).length) := by simp
    simp only [hlt, hne, if_true, if_false]
    rw [List.set_append_right _ _ (Nat.le_refl _)]
    simp only [Nat.sub_self, List.set_cons_zero]
    rw [show pre ++ l :: (post ++ [l]) = (pre ++ l :: post) ++ [l] by simp]
    exact List.dropLast_concat
  have habs : ∀ x ∈ pre ++ l :: post, m k x.1 = false := by
    intro x hx
    apply hk x
    simp only [List.mem_append, List.mem_cons] at hx ⊢
    rcases hx with h | h | h
    · exact Or.inl h
    · exact Or.inr (Or.inr (Or.inl h))
    · exact Or.inr (Or.inl h)
  unfold indexAssign
  rw [h1, insert_absent m k v _ habs]
  simp only
  have hlen : (pre ++ e :: (post ++ [l])).length - 1 = pre.length + (post.length + 1) := by simp
  rw [hlen]
  unfold swapIndices
  have ha : (pre ++ l :: post ++ [(k, v)])[pre.length]? = some l := by
    simp
  have hb : (pre ++ l :: post ++ [(k, v)])[pre.length + (post.length + 1)]? = some (k, v) := by
    rw [show pre ++ l :: post ++ [(k, v)] = (pre ++ l :: post) ++ [(k, v)] by simp]
    rw [List.getElem?_append_right (by simp)]
    simp
  simp only [ha, hb]
  congr 1
  rw [show pre ++ l :: post ++ [(k, v)] = pre ++ (l :: (post ++ [(k, v)])) by simp]
  rw [List.set_append_right _ _ (Nat.le_refl _)]
  simp only [Nat.sub_self, List.set_cons_zero]
  rw [List.set_append_right _ _ (by omega)]
  rw [show pre.length + (post.length + 1) - pre.length = post.length + 1 by omega]
  simp only [List.set_cons_succ]
  rw [List.set_append_right _ _ (Nat.le_refl _)]
  simp

theorem indexAssign_ok (m : Val → Val → Bool) (i : Nat) (k : Val) (v : β) (es : List (Val × β))
    (hok : replaceOk m i k (keys es) = true) : indexAssign m i k v es = some (replaceAt i k v es) := by
  simp only [replaceOk, Bool.and_eq_true, decide_eq_true_eq, List.all_eq_true, Bool.not_eq_true'] at hok
  obtain ⟨hi, hall⟩ := hok
  have hi' : i < es.length := by simpa [keys] using hi
  have hsplit : es = es.take i ++ es[i] :: es.drop (i + 1) := by
    rw [List.getElem_cons_drop]; simp
  have hprelen : (es.take i).length = i := by simp; omega
  have herase : (keys es).eraseIdx i = keys (es.take i) ++ keys (es.drop (i + 1)) := by
    rw [List.eraseIdx_eq_take_drop_succ]
    simp [keys, List.map_take, List.map_drop]
  rw [herase] at hall
  have habs : ∀ x ∈ es.take i ++ es.drop (i + 1), m k x.1 = false := by
    intro x hx
    apply hall
    rcases List.mem_append.mp hx with h | h
    · exact List.mem_append_left _ (List.mem_map_of_mem h)
    · exact List.mem_append_right _ (List.mem_map_of_mem h)
  have hset : replaceAt i k v es = es.take i ++ (k, v) :: es.drop (i + 1) := by
    unfold replaceAt
    rw [List.set_eq_take_append_cons_drop]; simp [hi']
  rw [hset]
  generalize hpre : es.take i = pre at *
  generalize hpost : es.drop (i + 1) = post at *
  generalize es[i] = e at *
  rw [hsplit, ← hprelen]
  rcases List.eq_nil_or_concat post with hp | ⟨post', l, hp⟩
  · subst hp
    exact indexAssign_last m k v pre e (fun x hx => habs x (by simpa using hx))
  · subst hp
    simp only [List.concat_eq_append] at *
    exact indexAssign_inner m k v pre post' e l habs

/-! ### the checked index assignment (fix 6a9dccd) never panics -/

theorem findIdx_none (m : Val → Val → Bool) (k : Val) (es : List (Val × β)) (h : findIdx m k es = none) :
    ∀ e ∈ es, m k e.1 = false := by
  induction es with
  | nil => intro e he; cases he
  | cons e0 es ih =>
    obtain ⟨kk, vv⟩ := e0
    simp only [findIdx] at h
    by_cases hk : m k kk = true
    · simp [hk] at h
    · have hk' : m k kk = false := by simpa using hk
      simp only [hk', Bool.false_eq_true, if_false, Option.map_eq_none_iff] at h
      intro e he
      rcases List.mem_cons.mp he with rfl | he'
      · exact hk'
      · exact ih h e he'

theorem findIdx_some (m : Val → Val → Bool) (k : Val) (es : List (Val × β)) (j : Nat)
    (h : findIdx m k es = some j) : ∃ hj : j < es.length, m k (es[j]).1 = true := by
  induction es generalizing j with
  | nil => simp [findIdx] at h
  | cons e0 es ih =>
    obtain ⟨kk, vv⟩ := e0
    simp only [findIdx] at h
    by_cases hk : m k kk = true
    · simp only [hk, if_true, Option.some.injEq] at h
      subst h
      exact ⟨by simp, by simpa using hk⟩
    · have hk' : m k kk = false := by simpa using hk
      simp only [hk', Bool.false_eq_true, if_false, Option.map_eq_some_iff] at h
      obtain ⟨j', hj', rfl⟩ := h
      obtain ⟨hlt, hm⟩ := ih j' hj'
      exact ⟨by simp; omega, by simpa using hm⟩

/-- with pairwise different keys, a key that matches entry `i` matches no other entry -/
theorem distinct_other_no_match {m : Val → Val → Bool} (hm : KeyPER m) (k : Val) (ks : List Val) (i : Nat)
    (hi : i < ks.length) (hd : Distinct m ks) (hk : m k ks[i] = true) :
    ∀ x ∈ ks.eraseIdx i, m k x = false := by
  have hsplit : ks = ks.take i ++ ks[i] :: ks.drop (i + 1) := by
    rw [List.getElem_cons_drop]; simp
  have herase : ks.eraseIdx i = ks.take i ++ ks.drop (i + 1) := List.eraseIdx_eq_take_drop_succ ks i
  rw [herase]
  unfold Distinct at hd
  rw [hsplit, List.pairwise_append] at hd
  obtain ⟨_, hrest, hcross⟩ := hd
  have hrest' := List.pairwise_cons.mp hrest
  intro x hx
  cases hx2 : m k x with
  | false => rfl
  | true =>
    have hik : m ks[i] k = true := by rw [hm.symm]; exact hk
    rcases List.mem_append.mp hx with h | h
    · have h1 : m x k = true := by rw [hm.symm]; exact hx2
      have := hm.trans x k ks[i] h1 hk
      rw [hcross x h ks[i] List.mem_cons_self] at this
      exact absurd this (by simp)
    · have := hm.trans ks[i] k x hik hx2
      rw [hrest'.1 x h] at this
      exact absurd this (by simp)

/-- `m[i] = (k, v)` for a valid index on a map with pairwise different keys: either `k` is in use at
another index `j` — a runtime error, the map is untouched — or entry `i` is replaced in place.
It never panics. -/
theorem indexAssignChecked_total {m : Val → Val → Bool} (hm : KeyPER m) (i : Nat) (k : Val) (v : β)
    (es : List (Val × β)) (hi : i < es.length) (hd : Distinct m (keys es)) :
    (∃ j, j ≠ i ∧ indexAssignChecked m m i k v es = .keyInUse j ∧ replaceOk m i k (keys es) = false) ∨
    (indexAssignChecked m m i k v es = .replaced (replaceAt i k v es) ∧ replaceOk m i k (keys es) = true) := by
  have hik : i < (keys es).length := by simpa [keys] using hi
  unfold indexAssignChecked
  cases hf : findIdx m k es with
  | none =>
    right
    have hno := findIdx_none m k es hf
    have hok : replaceOk m i k (keys es) = true := by
      simp only [replaceOk, Bool.and_eq_true, decide_eq_true_eq, List.all_eq_true, Bool.not_eq_true']
      refine ⟨hik, ?_⟩
      intro x hx
      have hx' : x ∈ keys es := List.mem_of_mem_eraseIdx hx
      obtain ⟨e, he, rfl⟩ := List.mem_map.mp hx'
      exact hno e he
    rw [indexAssign_ok m i k v es hok]
    exact ⟨rfl, hok⟩
  | some j =>
    obtain ⟨hj, hmj⟩ := findIdx_some m k es j hf
    by_cases hji : j = i
    · right
      subst hji
      have hkey : m k (keys es)[j] = true := by simpa [keys] using hmj
      have hok : replaceOk m j k (keys es) = true := by
        simp only [replaceOk, Bool.and_eq_true, decide_eq_true_eq, List.all_eq_true, Bool.not_eq_true']
        exact ⟨hik, distinct_other_no_match hm k (keys es) j hik hd hkey⟩
      rw [indexAssign_ok m j k v es hok]
      exact ⟨by simp, hok⟩
    · left
      refine ⟨j, hji, by simp [hji], ?_⟩
      have hmem : (es[j]).1 ∈ (keys es).eraseIdx i := by
        rw [List.mem_eraseIdx_iff_getElem]
        exact ⟨j, by simpa [keys] using hj, hji, by simp [keys]⟩
      cases hr : replaceOk m i k (keys es) with
      | false => rfl
      | true =>
        simp only [replaceOk, Bool.and_eq_true, decide_eq_true_eq, List.all_eq_true, Bool.not_eq_true'] at hr
        have := hr.2 _ hmem
        rw [hmj] at this
        exact absurd this (by simp)

end OMap
end Equal
end KotoVerif
