/-
C14 — `run_index_assign` (Map arm): the three IndexMap calls replace entry `i` in place whenever the
new key is not present at another index.
-/
import KotoVerif.Model.Equal
import KotoVerif.Lemmas.C14Map

namespace KotoVerif
namespace Equal
namespace OMap

variable {β : Type}

theorem insert_absent (m : Val → Val → Bool) (k : Val) (v : β) (es : List (Val × β))
    (h : ∀ e ∈ es, m k e.1 = false) : insert m k v es = (es ++ [(k, v)], none) := by
  induction es with
  | nil => rfl
  | cons e es ih =>
    obtain ⟨k', v'⟩ := e
    have h0 : m k k' = false := h (k', v') (by simp)
    simp only [insert, h0, Bool.false_eq_true, if_false]
    rw [ih (fun e he => h e (List.mem_cons_of_mem _ he))]
    rfl

theorem indexAssign_last (m : Val → Val → Bool) (k : Val) (v : β) (pre : List (Val × β)) (e : Val × β)
    (hk : ∀ x ∈ pre, m k x.1 = false) :
    indexAssign m pre.length k v (pre ++ [e]) = some (pre ++ [(k, v)]) := by
  have h1 : swapRemoveIndex pre.length (pre ++ [e]) = pre := by
    simp [swapRemoveIndex]
  unfold indexAssign
  rw [h1, insert_absent m k v pre hk]
  simp [swapIndices]

theorem indexAssign_inner (m : Val → Val → Bool) (k : Val) (v : β) (pre post : List (Val × β))
    (e l : Val × β) (hk : ∀ x ∈ pre ++ (post ++ [l]), m k x.1 = false) :
    indexAssign m pre.length k v (pre ++ e :: (post ++ [l])) = some (pre ++ (k, v) :: (post ++ [l])) := by
  have h1 : swapRemoveIndex pre.length (pre ++ e :: (post ++ [l])) = pre ++ l :: post := by
    have hlast : (pre ++ e :: (post ++ [l])).getLast? = some l := by
      rw [show pre ++ e :: (post ++ [l]) = (pre ++ e :: post) ++ [l] by simp]
      exact List.getLast?_concat
    unfold swapRemoveIndex
    simp only [hlast]
    have hlt : pre.length < (pre ++ e :: (post ++ [l])).length := by simp
    have hne : ¬ (pre.length + 1 = (pre ++ e :: (post ++ [l])).length) := by simp
    simp only [hlt, hne, if_true, if_false]
    rw [List.set_append_right _ _ (Nat.le_refl _)]
    simp only [Nat.sub_self, List.set_cons_zero]
    rw [show pre ++ l :: (post ++ [l]) = (pre ++ l :: post) ++ [l] by simp]
    exact List.dropLast_concat
  have habs : ∀ x ∈ pre ++ l :: post, m k x.1 = false := by
    intro x hx
    apply hk x
    simp only [List.mem_append, List.mem_cons] at hx ⊢
    rcases hx with h | h | h
    · exact Or.inl h
    · exact Or.inr (Or.inr (Or.inl h))
    · exact Or.inr (Or.inl h)
  unfold indexAssign
  rw [h1, insert_absent m k v _ habs]
  simp only
  have hlen : (pre ++ e :: (post ++ [l])).length - 1 = pre.length + (post.length + 1) := by simp
  rw [hlen]
  unfold swapIndices
  have ha : (pre ++ l :: post ++ [(k, v)])[pre.length]? = some l := by
    simp
  have hb : (pre ++ l :: post ++ [(k, v)])[pre.length + (post.length + 1)]? = some (k, v) := by
    rw [show pre ++ l :: post ++ [(k, v)] = (pre ++ l :: post) ++ [(k, v)] by simp]
    rw [List.getElem?_append_right (by simp)]
    simp
  simp only [ha, hb]
  congr 1
  rw [show pre ++ l :: post ++ [(k, v)] = pre ++ (l :: (post ++ [(k, v)])) by simp]
  rw [List.set_append_right _ _ (Nat.le_refl _)]
  simp only [Nat.sub_self, List.set_cons_zero]
  rw [List.set_append_right _ _ (by omega)]
  rw [show pre.length + (post.length + 1) - pre.length = post.length + 1 by omega]
  simp only [List.set_cons_succ]
  rw [List.set_append_right _ _ (Nat.le_refl _)]
  simp

theorem indexAssign_ok (m : Val → Val → Bool) (i : Nat) (k : Val) (v : β) (es : List (Val × β))
    (hok : replaceOk m i k (keys es) = true) : indexAssign m i k v es = some (replaceAt i k v es) := by
  simp only [replaceOk, Bool.and_eq_true, decide_eq_true_eq, List.all_eq_true, Bool.not_eq_true'] at hok
  obtain ⟨hi, hall⟩ := hok
  have hi' : i < es.length := by simpa [keys] using hi
  have hsplit : es = es.take i ++ es[i] :: es.drop (i + 1) := by
    rw [List.getElem_cons_drop]; simp
  have hprelen : (es.take i).length = i := by simp; omega
  have herase : (keys es).eraseIdx i = keys (es.take i) ++ keys (es.drop (i + 1)) := by
    rw [List.eraseIdx_eq_take_drop_succ]
    simp [keys, List.map_take, List.map_drop]
  rw [herase] at hall
  have habs : ∀ x ∈ es.take i ++ es.drop (i + 1), m k x.1 = false := by
    intro x hx
    apply hall
    rcases List.mem_append.mp hx with h | h
    · exact List.mem_append_left _ (List.mem_map_of_mem h)
    · exact List.mem_append_right _ (List.mem_map_of_mem h)
  have hset : replaceAt i k v es = es.take i ++ (k, v) :: es.drop (i + 1) := by
    unfold replaceAt
    rw [List.set_eq_take_append_cons_drop]; simp [hi']
  rw [hset]
  generalize hpre : es.take i = pre at *
  generalize hpost : es.drop (i + 1) = post at *
  generalize es[i] = e at *
  rw [hsplit, ← hprelen]
  rcases List.eq_nil_or_concat post with hp | ⟨post', l, hp⟩
  · subst hp
    exact indexAssign_last m k v pre e (fun x hx => habs x (by simpa using hx))
  · subst hp
    simp only [List.concat_eq_append] at *
    exact indexAssign_inner m k v pre post' e l habs

end OMap
end Equal
end KotoVerif
