/-
Helper lemmas for Props/C11.lean (core Lean only).
-/
import KotoVerif.Model.FmtOptions
import KotoVerif.Model.SrcSlice

namespace KotoVerif.C11.Lemmas
open KotoVerif.SrcSlice

/-! ## source_slice -/

theorem colLen_eq_byteLen (l : List Ch) (h : ∀ c ∈ l, c.width = c.bytes) : colLen l = byteLen l := by
  induction l with
  | nil => rfl
  | cons c cs ih =>
    have hc : c.width = c.bytes := h c (by simp)
    have hcs : ∀ x ∈ cs, x.width = x.bytes := fun x hx => h x (by simp [hx])
    simp [colLen, byteLen, hc, ih hcs]

theorem slice_offsets (ls : List Line) (k₁ k₂ : Nat) (pre₁ pre₂ : List Ch)
    (h₁ : ∀ c ∈ pre₁, c.width = c.bytes) (h₂ : ∀ c ∈ pre₂, c.width = c.bytes) :
    sourceSliceCol ls { start := lexPos k₁ pre₁, stop := lexPos k₂ pre₂ }
      = (truePos ls k₁ pre₁, truePos ls k₂ pre₂) := by
  simp [sourceSliceCol, byteOfCol, lexPos, truePos, colLen_eq_byteLen _ h₁, colLen_eq_byteLen _ h₂]

theorem byteLen_append (a b : List Ch) : byteLen (a ++ b) = byteLen a + byteLen b := by
  induction a with
  | nil => simp [byteLen]
  | cons c cs ih => simp [byteLen, ih]; omega

theorem dropBytes_append (a b : List Ch) (h : ∀ c ∈ a, 1 ≤ c.bytes) :
    dropBytes (a ++ b) (byteLen a) = some b := by
  induction a with
  | nil => cases b <;> simp [byteLen, dropBytes]
  | cons c cs ih =>
    have hc : 1 ≤ c.bytes := h c (by simp)
    have hcs : ∀ x ∈ cs, 1 ≤ x.bytes := fun x hx => h x (by simp [hx])
    obtain ⟨m, hm⟩ : ∃ m, c.bytes + byteLen cs = m + 1 := ⟨c.bytes + byteLen cs - 1, by omega⟩
    have hle : c.bytes ≤ m + 1 := by omega
    have hsub : m + 1 - c.bytes = byteLen cs := by omega
    simp only [byteLen, List.cons_append, hm, dropBytes, hle, if_true, hsub]
    exact ih hcs

theorem takeBytes_append (a b : List Ch) (h : ∀ c ∈ a, 1 ≤ c.bytes) :
    takeBytes (a ++ b) (byteLen a) = some a := by
  induction a with
  | nil => cases b <;> simp [byteLen, takeBytes]
  | cons c cs ih =>
    have hc : 1 ≤ c.bytes := h c (by simp)
    have hcs : ∀ x ∈ cs, 1 ≤ x.bytes := fun x hx => h x (by simp [hx])
    obtain ⟨m, hm⟩ : ∃ m, c.bytes + byteLen cs = m + 1 := ⟨c.bytes + byteLen cs - 1, by omega⟩
    have hle : c.bytes ≤ m + 1 := by omega
    have hsub : m + 1 - c.bytes = byteLen cs := by omega
    simp only [byteLen, List.cons_append, hm, takeBytes, hle, if_true, hsub, ih hcs, Option.map_some]

theorem sliceText_mid (x tok y : List Ch) (hx : ∀ c ∈ x, 1 ≤ c.bytes) (ht : ∀ c ∈ tok, 1 ≤ c.bytes) :
    sliceText (x ++ (tok ++ y)) (byteLen x) (byteLen x + byteLen tok) = some tok := by
  have hle : byteLen x ≤ byteLen x + byteLen tok := by omega
  have hd : byteLen x + byteLen tok - byteLen x = byteLen tok := by omega
  simp only [sliceText, hle, if_true, hd, dropBytes_append x (tok ++ y) hx, Option.bind_some]
  exact takeBytes_append tok y ht

/-- The flattened source splits around line `k`; the part in front has `line_offsets[k]` bytes. -/
theorem flatten_split (ls : List Line) (k : Nat) (l : Line) (h : ls[k]? = some l) :
    ∃ A B, ls.flatten = A ++ l ++ B ∧ byteLen A = lineOffset ls k ∧ (∀ c ∈ A, ∃ l' ∈ ls, c ∈ l') := by
  induction ls generalizing k with
  | nil => simp at h
  | cons l0 t ih =>
    cases k with
    | zero =>
      simp at h
      subst h
      exact ⟨[], t.flatten, by simp, by simp [byteLen, lineOffset], by simp⟩
    | succ k =>
      simp at h
      obtain ⟨A, B, hf, hb, hm⟩ := ih k h
      refine ⟨l0 ++ A, B, by simp [hf], by simp [byteLen_append, lineOffset, hb], ?_⟩
      intro c hc
      rcases List.mem_append.mp hc with hc | hc
      · exact ⟨l0, by simp, hc⟩
      · obtain ⟨l', hl', hcl⟩ := hm c hc
        exact ⟨l', by simp [hl'], hcl⟩

/-- the text between two true offsets on line `k` -/
theorem slice_true (ls : List Line) (k : Nat) (pre tok post : List Ch)
    (hline : ls[k]? = some (pre ++ tok ++ post))
    (hbytes : ∀ l ∈ ls, ∀ c ∈ l, 1 ≤ c.bytes) :
    sliceText ls.flatten (truePos ls k pre) (truePos ls k (pre ++ tok)) = some tok := by
  obtain ⟨A, B, hf, hb, hm⟩ := flatten_split ls k _ hline
  have hmem : (pre ++ tok ++ post) ∈ ls := List.mem_of_getElem? hline
  have hA : ∀ c ∈ A, 1 ≤ c.bytes := by
    intro c hc
    obtain ⟨l', hl', hcl⟩ := hm c hc
    exact hbytes l' hl' c hcl
  have hP : ∀ c ∈ pre, 1 ≤ c.bytes := fun c hc => hbytes _ hmem c (by simp [hc])
  have hT : ∀ c ∈ tok, 1 ≤ c.bytes := fun c hc => hbytes _ hmem c (by simp [hc])
  have hAP : ∀ c ∈ A ++ pre, 1 ≤ c.bytes := by
    intro c hc
    rcases List.mem_append.mp hc with h | h
    · exact hA c h
    · exact hP c h
  have hs : truePos ls k pre = byteLen (A ++ pre) := by simp [truePos, byteLen_append, hb]
  have he : truePos ls k (pre ++ tok) = byteLen (A ++ pre) + byteLen tok := by
    simp [truePos, byteLen_append, hb]; omega
  have hflat : ls.flatten = (A ++ pre) ++ (tok ++ (post ++ B)) := by simp [hf]
  rw [hs, he, hflat]
  exact sliceText_mid (A ++ pre) tok (post ++ B) hAP hT

/-- the fallback arithmetic is right when columns are byte counts -/
theorem slice_text_col (ls : List Line) (k : Nat) (pre tok post : List Ch)
    (hline : ls[k]? = some (pre ++ tok ++ post))
    (hbytes : ∀ l ∈ ls, ∀ c ∈ l, 1 ≤ c.bytes)
    (hpre : ∀ c ∈ pre, c.width = c.bytes) (htok : ∀ c ∈ tok, c.width = c.bytes) :
    sourceSliceTextCol ls { start := lexPos k pre, stop := lexPos k (pre ++ tok) } = some tok := by
  have hpt : ∀ c ∈ pre ++ tok, c.width = c.bytes := by
    intro c hc
    rcases List.mem_append.mp hc with h | h
    · exact hpre c h
    · exact htok c h
  unfold sourceSliceTextCol
  rw [slice_offsets ls k k pre (pre ++ tok) hpre hpt]
  exact slice_true ls k pre tok post hline hbytes

theorem lookup_of_mem (tbl : Table) (p : Pos) (b : Nat) (hm : (p, b) ∈ tbl)
    (hf : ∀ b', (p, b') ∈ tbl → b' = b) : lookup tbl p = some b := by
  induction tbl with
  | nil => simp at hm
  | cons e rest ih =>
    obtain ⟨q, c⟩ := e
    by_cases hq : q = p
    · subst hq
      have : c = b := hf c (by simp)
      simp [lookup, this]
    · have hm' : (p, b) ∈ rest := by
        rcases List.mem_cons.mp hm with h | h
        · exact absurd (congrArg Prod.fst h).symm hq
        · exact h
      simp only [lookup, hq, if_false]
      exact ih hm' (fun b' hb' => hf b' (by simp [hb']))

/-- with the token-boundary table: no assumption on widths -/
theorem slice_text_tbl (ls : List Line) (tbl : Table) (k : Nat) (pre tok post : List Ch) (sp ep : Pos)
    (hline : ls[k]? = some (pre ++ tok ++ post))
    (hbytes : ∀ l ∈ ls, ∀ c ∈ l, 1 ≤ c.bytes)
    (hs : (sp, truePos ls k pre) ∈ tbl) (he : (ep, truePos ls k (pre ++ tok)) ∈ tbl)
    (hfs : ∀ b, (sp, b) ∈ tbl → b = truePos ls k pre)
    (hfe : ∀ b, (ep, b) ∈ tbl → b = truePos ls k (pre ++ tok)) :
    sourceSliceText ls tbl { start := sp, stop := ep } = some tok := by
  unfold sourceSliceText sourceSlice byteOf
  simp only [lookup_of_mem tbl sp _ hs hfs, lookup_of_mem tbl ep _ he hfe]
  exact slice_true ls k pre tok post hline hbytes

/-- off the table, `byte_offset` is the fallback -/
theorem byteOf_fallback (ls : List Line) (tbl : Table) (p : Pos) (h : lookup tbl p = none) :
    byteOf ls tbl p = byteOfCol ls p := by
  simp [byteOf, h]

/-! ## format options: decimal digits -/

open KotoVerif.FmtOptions

/-- one step of reading a decimal number -/
def dstep (a d : Nat) : Nat := a * 10 + (d - 48)

theorem digitsAux_append (f n : Nat) (acc : List Nat) :
    digitsAux f n acc = digitsAux f n [] ++ acc := by
  induction f generalizing n acc with
  | zero => simp [digitsAux]
  | succ f ih =>
    simp only [digitsAux]
    split
    · simp
    · rw [ih (n / 10) ((48 + n % 10) :: acc), ih (n / 10) [48 + n % 10]]
      simp

theorem digitsAux_val (f n : Nat) (h : n < f) : (digitsAux f n []).foldl dstep 0 = n := by
  induction f generalizing n with
  | zero => omega
  | succ f ih =>
    simp only [digitsAux]
    split
    · simp [dstep]
    · rw [digitsAux_append, List.foldl_append, ih (n / 10) (by omega)]
      simp [dstep]
      omega

theorem digitsAux_isDigit (f n : Nat) : ∀ d ∈ digitsAux f n [], isDigit d = true := by
  induction f generalizing n with
  | zero => simp [digitsAux]
  | succ f ih =>
    simp only [digitsAux]
    split
    · intro d hd
      simp at hd
      subst hd
      simp [isDigit]
      omega
    · intro d hd
      rw [digitsAux_append] at hd
      rcases List.mem_append.mp hd with h | h
      · exact ih _ d h
      · simp at h
        subst h
        simp [isDigit]
        omega

/-- the rendering starts with a digit; a leading `0` only for the number 0 itself -/
theorem digitsAux_head (f n : Nat) (h : n < f) :
    ∃ m tl, digitsAux f n [] = (48 + m) :: tl ∧ m < 10 ∧ (m = 0 → tl = []) := by
  induction f generalizing n with
  | zero => omega
  | succ f ih =>
    simp only [digitsAux]
    split
    · exact ⟨n, [], rfl, by omega, fun _ => rfl⟩
    · rename_i hn
      obtain ⟨m, tl, he, hm, h0⟩ := ih (n / 10) (by omega)
      rw [digitsAux_append, he]
      refine ⟨m, tl ++ [48 + n % 10], by simp, hm, ?_⟩
      intro hm0
      -- m = 0 would mean n / 10 = 0
      have hv := digitsAux_val f (n / 10) (by omega)
      rw [he, h0 hm0, hm0] at hv
      simp [dstep] at hv
      omega

theorem foldl_dstep_ge (ds : List Nat) (acc : Nat) : acc ≤ ds.foldl dstep acc := by
  induction ds generalizing acc with
  | nil => simp
  | cons d ds ih =>
    simp only [List.foldl_cons]
    exact Nat.le_trans (by simp [dstep]; omega) (ih (dstep acc d))

/-- `consume_u32`'s loop on a digit run followed by a non-digit (or the end) -/
theorem consumeDigits_run (ds rest : List Nat) (acc : Nat)
    (hd : ∀ d ∈ ds, isDigit d = true)
    (hrest : ∀ c, rest.head? = some c → isDigit c = false)
    (hmax : ds.foldl dstep acc ≤ u32Max) :
    consumeDigits acc (ds ++ rest) = some (ds.foldl dstep acc, rest) := by
  induction ds generalizing acc with
  | nil =>
    cases rest with
    | nil => simp [consumeDigits]
    | cons c cs =>
      have : isDigit c = false := hrest c (by simp)
      simp [consumeDigits, this]
  | cons d ds ih =>
    have hdd : isDigit d = true := hd d (by simp)
    have hds : ∀ x ∈ ds, isDigit x = true := fun x hx => hd x (by simp [hx])
    simp only [List.foldl_cons] at hmax
    have hle : dstep acc d ≤ u32Max := Nat.le_trans (foldl_dstep_ge ds _) hmax
    have hnot : ¬ (acc * 10 + (d - 48) > u32Max) := by
      simp only [dstep] at hle
      omega
    simp only [List.cons_append, consumeDigits, hdd, if_true, hnot, if_false, List.foldl_cons]
    exact ih (dstep acc d) hds hmax

/-- What the number-reading arms of `parse` see for the text `n.to_string() ++ rest`. -/
theorem digits_spec (n : Nat) (hn : n ≤ u32Max) (rest : List Nat)
    (hrest : ∀ c, rest.head? = some c → isDigit c = false) :
    ∃ m tl, digits n = (48 + m) :: tl ∧ m < 10 ∧ (m = 0 → tl = [])
      ∧ (∀ d ∈ tl, isDigit d = true)
      ∧ consumeDigits m (tl ++ rest) = some (n, rest) := by
  obtain ⟨m, tl, he, hm, h0⟩ := digitsAux_head (n + 1) n (by omega)
  have hdig := digitsAux_isDigit (n + 1) n
  have hval := digitsAux_val (n + 1) n (by omega)
  rw [he] at hdig hval
  have htl : ∀ d ∈ tl, isDigit d = true := fun d hd => hdig d (by simp [hd])
  simp only [List.foldl_cons] at hval
  have h48 : dstep 0 (48 + m) = m := by simp [dstep]
  rw [h48] at hval
  refine ⟨m, tl, he, hm, h0, htl, ?_⟩
  have := consumeDigits_run tl rest m htl hrest (by rw [hval]; exact hn)
  rw [this, hval]


/-! ## format options: one iteration of `parse` on rendered text -/

theorem isDigit_not_align (c : Nat) (h : isDigit c = true) : isAlignCh c = false := by
  simp [isDigit, isAlignCh] at *
  omega

theorem isDigit_add (m : Nat) (hm : m < 10) : isDigit (48 + m) = true := by
  simp [isDigit]; omega

theorem headIs_append (p : Nat → Bool) (a b : List Nat) :
    headIs p (a ++ b) = if a = [] then headIs p b else headIs p a := by
  cases a <;> simp [headIs]

theorem headIs_false_of (p : Nat → Bool) (l : List Nat) (h : ∀ c, l.head? = some c → p c = false) :
    headIs p l = false := by
  cases l with
  | nil => rfl
  | cons c cs => simpa [headIs] using h c (by simp)

/-- The width arm: at `Start` or `MinWidth`, on `n.to_string() ++ rest`. -/
theorem step_num (s : List Nat) (g1 n : Nat) (rest : List Nat) (pos : PPos) (o : Opts)
    (hn : n ≤ u32Max) (hpos : pos = .start ∨ pos = .minWidth)
    (hrd : ∀ c, rest.head? = some c → isDigit c = false)
    (hra : ∀ c, rest.head? = some c → isAlignCh c = false) :
    ∃ d tl, digits n = d :: tl ∧
      step s g1 d (tl ++ rest) pos o = .ok (.precision, { o with minWidth := some n }, rest) := by
  obtain ⟨m, tl, he, hm, h0, htl, hc⟩ := digits_spec n hn rest hrd
  refine ⟨48 + m, tl, he, ?_⟩
  have hpa : headIs isAlignCh (tl ++ rest) = false := by
    rw [headIs_append]
    split
    · exact headIs_false_of _ _ hra
    · cases tl with
      | nil => contradiction
      | cons t ts => simpa [headIs] using isDigit_not_align t (htl t (by simp))
  have hna : isAlignCh (48 + m) = false := isDigit_not_align _ (isDigit_add m hm)
  have hz : ((48 + m == 48) && headIs isDigit (tl ++ rest)) = false := by
    by_cases hm0 : m = 0
    · subst hm0
      rw [h0 rfl]
      simp [headIs_false_of _ _ hrd]
    · have : (48 + m == 48) = false := by simp; omega
      simp [this]
  have hd : isDigit (48 + m) = true := isDigit_add m hm
  have hp : posIn pos [.start, .minWidth] = true := by
    rcases hpos with h | h <;> subst h <;> decide
  have hsub : 48 + m - 48 = m := by omega
  simp only [step, hpa, hna, hz, hd, hp, hsub, hc, Bool.and_false, Bool.false_and,
    Bool.and_true, if_false, if_true, Bool.false_eq_true]


/-- The precision arm: at `Start`, `MinWidth` or `Precision`, on `"." ++ p.to_string() ++ rest`. -/
theorem step_prec (s : List Nat) (g1 p : Nat) (rest : List Nat) (pos : PPos) (o : Opts)
    (hp : p ≤ u32Max) (hpos : pos = .start ∨ pos = .minWidth ∨ pos = .precision)
    (hrd : ∀ c, rest.head? = some c → isDigit c = false) :
    step s g1 46 (digits p ++ rest) pos o = .ok (.type, { o with precision := some p }, rest) := by
  obtain ⟨m, tl, he, hm, _, _, hc⟩ := digits_spec p hp rest hrd
  have hna : isAlignCh (48 + m) = false := isDigit_not_align _ (isDigit_add m hm)
  have hd : isDigit (48 + m) = true := isDigit_add m hm
  have hpo : posIn pos [.start, .minWidth, .precision] = true := by
    rcases hpos with h | h | h <;> subst h <;> decide
  have hsub : 48 + m - 48 = m := by omega
  have h46a : isAlignCh 46 = false := by decide
  have h46d : isDigit 46 = false := by decide
  have h4648 : (46 == 48) = false := by decide
  rw [he]
  simp only [List.cons_append, step, headIs, hna, hd, hpo, hsub, hc, h46a, h46d, h4648, Bool.and_false,
    Bool.false_and, Bool.and_true, if_false, if_true, Bool.false_eq_true, beq_self_eq_true,
    List.isEmpty_cons, Bool.not_false]

theorem loop_step (s : List Nat) (g1 f next : Nat) (rest : List Nat) (pos pos' : PPos) (o o' : Opts)
    (rest' : List Nat) (h : step s g1 next rest pos o = .ok (pos', o', rest')) :
    loop s g1 (f + 1) pos o (next :: rest) = loop s g1 f pos' o' rest' := by
  simp [loop, h]

theorem loop_nil (s : List Nat) (g1 f : Nat) (pos : PPos) (o : Opts) : loop s g1 f pos o [] = .ok o := by
  cases f <;> simp [loop]

def wText (w : Option Nat) : List Nat := optStr (w.map digits)
def pText (p : Option Nat) : List Nat := optStr (p.map (fun p => 46 :: digits p))
def b2n (b : Bool) : Nat := if b then 1 else 0
def iters (w p : Option Nat) (r : Option Repr') : Nat := b2n w.isSome + b2n p.isSome + b2n r.isSome

theorem digits_ne_nil (n : Nat) : digits n ≠ [] := by
  obtain ⟨m, tl, he, _⟩ := digitsAux_head (n + 1) n (by omega)
  intro h
  simp [digits, he] at h

theorem digits_length_pos (n : Nat) : 1 ≤ (digits n).length := by
  have := digits_ne_nil n
  cases h : digits n with
  | nil => contradiction
  | cons a b => simp

/-- the representation letter: what `parse` reads back, and that no other arm claims it -/
theorem reprStr_spec (r : Repr') :
    ∃ rc, reprText (some r) = [rc] ∧ reprOf rc = some r ∧ isAlignCh rc = false ∧ isDigit rc = false
      ∧ (rc == 46) = false ∧ (rc == 48) = false := by
  cases r
  · exact ⟨63, rfl, by decide, by decide, by decide, by decide, by decide⟩
  · exact ⟨120, rfl, by decide, by decide, by decide, by decide, by decide⟩
  · exact ⟨88, rfl, by decide, by decide, by decide, by decide, by decide⟩
  · exact ⟨98, rfl, by decide, by decide, by decide, by decide, by decide⟩
  · exact ⟨111, rfl, by decide, by decide, by decide, by decide, by decide⟩
  · exact ⟨101, rfl, by decide, by decide, by decide, by decide, by decide⟩
  · exact ⟨69, rfl, by decide, by decide, by decide, by decide, by decide⟩

theorem rText_length (r : Option Repr') : (reprText r).length = b2n r.isSome := by
  cases r with
  | none => rfl
  | some r => obtain ⟨rc, h, _⟩ := reprStr_spec r; simp [h, b2n]

theorem rText_head (r : Option Repr') :
    ∀ c, (reprText r).head? = some c → isDigit c = false ∧ isAlignCh c = false := by
  intro c hc
  cases r with
  | none => simp [reprText] at hc
  | some r =>
    obtain ⟨rc, h, _, ha, hd, _⟩ := reprStr_spec r
    simp [h] at hc
    subst hc
    exact ⟨hd, ha⟩

theorem iters_le (w p : Option Nat) (r : Option Repr') :
    iters w p r ≤ (wText w ++ pText p ++ reprText r).length := by
  have hr := rText_length r
  cases w with
  | none =>
    cases p with
    | none => simp [iters, wText, pText, optStr, b2n, hr]
    | some q => simp [iters, wText, pText, optStr, b2n, hr]; omega
  | some n =>
    have hn := digits_length_pos n
    cases p with
    | none => simp [iters, wText, pText, optStr, b2n, hr]; omega
    | some q => simp [iters, wText, pText, optStr, b2n, hr]; omega

/-- head of the width/precision/representation text is never an alignment character -/
theorem tail_head_not_align (w p : Option Nat) (r : Option Repr') :
    ∀ c, (wText w ++ pText p ++ reprText r).head? = some c → isAlignCh c = false := by
  intro c hc
  cases w with
  | some n =>
    obtain ⟨m, tl, he, hm, _⟩ := digitsAux_head (n + 1) n (by omega)
    have he' : digits n = (48 + m) :: tl := he
    simp [wText, optStr, he'] at hc
    subst hc
    exact isDigit_not_align _ (isDigit_add m hm)
  | none =>
    cases p with
    | some q =>
      simp [wText, pText, optStr] at hc
      subst hc
      decide
    | none =>
      simp only [wText, pText, optStr, Option.map_none, List.nil_append] at hc
      exact (rText_head r c hc).2

/-- The representation arm, at the end of the text. -/
theorem loop_repr (s : List Nat) (g1 : Nat) (r : Option Repr') (pos : PPos) (o : Opts) (f : Nat)
    (hf : b2n r.isSome ≤ f)
    (hpos : pos = .start ∨ pos = .minWidth ∨ pos = .precision ∨ pos = .type)
    (hor : o.repr = none) :
    loop s g1 f pos o (reprText r) = .ok { o with repr := r } := by
  cases r with
  | none =>
    simp only [reprText, loop_nil]
    cases o; simp_all
  | some r =>
    obtain ⟨f', rfl⟩ : ∃ f', f = f' + 1 := ⟨f - 1, by simp [b2n] at hf; omega⟩
    obtain ⟨rc, hs, hro, ha, hd, h46, h48⟩ := reprStr_spec r
    have hpo : posIn pos [.start, .minWidth, .precision, .type] = true := by
      rcases hpos with h | h | h | h <;> subst h <;> decide
    have hstep : step s g1 rc [] pos o = .ok (.end, { o with repr := some r }, []) := by
      simp only [step, headIs, ha, hd, h46, h48, hpo, hro, Option.isSome_some, Bool.and_false,
        Bool.false_and, Bool.and_true, if_false, if_true, Bool.false_eq_true]
    rw [hs, loop_step _ _ _ _ _ _ _ _ _ _ hstep, loop_nil]

/-- The width, precision and representation phase of `parse`, started at `Start` or `MinWidth`. -/
theorem loop_tail (s : List Nat) (g1 : Nat) (w p : Option Nat) (r : Option Repr') (pos : PPos)
    (o : Opts) (f : Nat)
    (hf : iters w p r ≤ f)
    (hw : ∀ n, w = some n → n ≤ u32Max) (hp : ∀ n, p = some n → n ≤ u32Max)
    (hpos : pos = .start ∨ pos = .minWidth)
    (hom : o.minWidth = none) (hop : o.precision = none) (hor : o.repr = none) :
    loop s g1 f pos o (wText w ++ pText p ++ reprText r)
      = .ok { o with minWidth := w, precision := p, repr := r } := by
  have hrd : ∀ c, (reprText r).head? = some c → isDigit c = false := fun c hc => (rText_head r c hc).1
  have hra : ∀ c, (reprText r).head? = some c → isAlignCh c = false := fun c hc => (rText_head r c hc).2
  cases w with
  | none =>
    cases p with
    | none =>
      simp only [wText, pText, optStr, Option.map_none, List.nil_append]
      rw [loop_repr s g1 r pos o f (by simpa [iters, b2n] using hf)
        (by rcases hpos with h | h <;> simp [h]) hor]
      cases o; simp_all
    | some q =>
      obtain ⟨f', rfl⟩ : ∃ f', f = f' + 1 := ⟨f - 1, by simp [iters, b2n] at hf; omega⟩
      have hs := step_prec s g1 q (reprText r) pos o (hp q rfl)
        (by rcases hpos with h | h <;> simp [h]) hrd
      simp only [wText, pText, optStr, Option.map_none, Option.map_some, List.nil_append, List.cons_append]
      rw [loop_step _ _ _ _ _ _ _ _ _ _ hs,
        loop_repr s g1 r .type { o with precision := some q } f'
          (by simp [iters, b2n] at hf; simp [b2n]; omega) (by simp) hor]
      cases o; simp_all
  | some n =>
    cases p with
    | none =>
      obtain ⟨f', rfl⟩ : ∃ f', f = f' + 1 := ⟨f - 1, by simp [iters, b2n] at hf; omega⟩
      obtain ⟨d, tl, he, hs⟩ := step_num s g1 n (reprText r) pos o (hw n rfl) hpos hrd hra
      simp only [wText, pText, optStr, Option.map_none, Option.map_some, List.append_nil, he,
        List.cons_append]
      rw [loop_step _ _ _ _ _ _ _ _ _ _ hs,
        loop_repr s g1 r .precision { o with minWidth := some n } f'
          (by simp [iters, b2n] at hf; simp [b2n]; omega) (by simp) hor]
      cases o; simp_all
    | some q =>
      obtain ⟨f', rfl⟩ : ∃ f', f = f' + 2 := ⟨f - 2, by simp [iters, b2n] at hf; omega⟩
      obtain ⟨d, tl, he, hs⟩ := step_num s g1 n (46 :: digits q ++ reprText r) pos o (hw n rfl) hpos
        (by intro c hc; simp at hc; subst hc; decide) (by intro c hc; simp at hc; subst hc; decide)
      have hs2 := step_prec s g1 q (reprText r) .precision { o with minWidth := some n } (hp q rfl)
        (by simp) hrd
      simp only [wText, pText, optStr, Option.map_some, he, List.cons_append, List.append_assoc]
      simp only [List.cons_append, List.append_assoc] at hs
      rw [loop_step _ _ _ _ _ _ _ _ _ _ hs, loop_step _ _ _ _ _ _ _ _ _ _ hs2,
        loop_repr s g1 r .type { o with minWidth := some n, precision := some q } f'
          (by simp [iters, b2n] at hf; simp [b2n]; omega) (by simp) hor]

/-! ## format options: the fill / alignment arms -/

theorem step_align (s : List Nat) (g1 ac : Nat) (rest : List Nat) (pos : PPos) (o : Opts)
    (hac : isAlignCh ac = true) (hpos : pos = .alignment ∨ (pos = .start ∧ headIs isAlignCh rest = false)) :
    step s g1 ac rest pos o = .ok (.minWidth, { o with align := alignOf ac }, rest) := by
  rcases hpos with h | ⟨h, hr⟩
  · subst h
    have h1 : (PPos.alignment == PPos.start) = false := by decide
    have h2 : posIn .alignment [.start, .alignment] = true := by decide
    simp only [step, h1, hac, h2, Bool.false_and, Bool.and_true, if_false, if_true, Bool.false_eq_true]
  · subst h
    have h2 : posIn .start [.start, .alignment] = true := by decide
    simp only [step, hr, hac, h2, Bool.and_false, Bool.and_true, if_false, if_true, Bool.false_eq_true]

theorem step_fill1 (s : List Nat) (g1 c ac : Nat) (rest : List Nat) (o : Opts)
    (hac : isAlignCh ac = true) :
    step s g1 c (ac :: rest) .start o
      = .ok (.minWidth, { o with fill := some [c], align := alignOf ac }, rest) := by
  have h1 : (PPos.start == PPos.start) = true := by decide
  simp only [step, headIs, h1, hac, Bool.and_true, if_true]

theorem step_zero (s : List Nat) (g1 : Nat) (rest : List Nat) (o : Opts)
    (hra : headIs isAlignCh rest = false) (hrd : headIs isDigit rest = true) :
    step s g1 48 rest .start o = .ok (.minWidth, { o with fill := some [48] }, rest) := by
  have h2 : isAlignCh 48 = false := by decide
  have h3 : posIn .start [.start, .minWidth] = true := by decide
  simp only [step, hra, hrd, h2, h3, Bool.and_false, Bool.and_true, Bool.false_and, if_false, if_true,
    Bool.false_eq_true, beq_self_eq_true]

theorem step_generic (s : List Nat) (g1 c : Nat) (rest : List Nat) (o : Opts)
    (hc : plainStart c = true) (hra : headIs isAlignCh rest = false)
    (hdot : (c == 46 && !rest.isEmpty) = false) :
    step s g1 c rest .start o
      = .ok (.alignment, { o with fill := some (s.take (max g1 1)) }, s.drop (max g1 1)) := by
  simp only [plainStart, Bool.and_eq_true, Bool.not_eq_true', Option.isNone_iff_eq_none] at hc
  obtain ⟨⟨ha, hd⟩, hr⟩ := hc
  have h48 : (c == 48) = false := by
    simp [isDigit] at hd
    simp
    omega
  have h1 : (PPos.start == PPos.start) = true := by decide
  have hr' : (reprOf c).isSome = false := by simp [hr]
  simp only [step, hra, ha, hd, h48, hdot, hr', h1, Bool.and_false, Bool.false_and,
    if_false, if_true, Bool.false_eq_true]

theorem alignStr_spec (a : Align) (h : a ≠ .default) :
    ∃ ac, alignStr a = [ac] ∧ isAlignCh ac = true ∧ alignOf ac = a := by
  cases a with
  | default => contradiction
  | left => exact ⟨60, rfl, by decide, by decide⟩
  | center => exact ⟨94, rfl, by decide, by decide⟩
  | right => exact ⟨62, rfl, by decide, by decide⟩

def tailText (w p : Option Nat) (r : Option Repr') : List Nat := wText w ++ pText p ++ reprText r

theorem tail_headIs_align (w p : Option Nat) (r : Option Repr') :
    headIs isAlignCh (tailText w p r) = false :=
  headIs_false_of _ _ (tail_head_not_align w p r)

/-! ## format options: `parse (render o) = o` -/

theorem tail_no_align (w p : Option Nat) (r : Option Repr') :
    ∀ x ∈ tailText w p r, isAlignCh x = false := by
  intro x hx
  simp only [tailText, wText, pText, List.mem_append] at hx
  rcases hx with (hx | hx) | hx
  · cases w with
    | none => simp [optStr] at hx
    | some n =>
      simp only [Option.map_some, optStr] at hx
      exact isDigit_not_align x (digitsAux_isDigit (n + 1) n x hx)
  · cases p with
    | none => simp [optStr] at hx
    | some q =>
      simp only [Option.map_some, optStr, List.mem_cons] at hx
      rcases hx with hx | hx
      · subst hx; decide
      · exact isDigit_not_align x (digitsAux_isDigit (q + 1) q x hx)
  · cases r with
    | none => simp [reprText] at hx
    | some r =>
      obtain ⟨rc, h, _, ha, _⟩ := reprStr_spec r
      simp [h] at hx
      subst hx
      exact ha

theorem preCheck_none (s : List Nat) (g1 g2 : Nat) (h : ∀ a, s[g1]? = some a → isAlignCh a = false) :
    preCheck s g1 g2 = none := by
  unfold preCheck
  split
  · cases hs : s[g1]? with
    | none => rfl
    | some a => simp [h a hs]
  · rfl

theorem preCheck_none_cons (c : Nat) (l : List Nat) (g1 g2 : Nat)
    (h : ∀ x ∈ l, isAlignCh x = false) : preCheck (c :: l) g1 g2 = none := by
  cases g1 with
  | zero => simp [preCheck]
  | succ k =>
    apply preCheck_none
    intro a ha
    simp only [List.getElem?_cons_succ] at ha
    exact h a (List.mem_of_getElem? ha)

/-- a single-character fill in front of an alignment: the new check either takes exactly that fill
(first cluster = the character, second = the alignment character) or does not fire -/
theorem preCheck_fill1 (c ac : Nat) (T : List Nat) (g1 g2 : Nat) (hac : isAlignCh ac = true)
    (h : ∀ x ∈ T, isAlignCh x = false) :
    preCheck (c :: ac :: T) g1 g2 = some ({ fill := some [c], align := alignOf ac }, T)
      ∨ preCheck (c :: ac :: T) g1 g2 = none := by
  match g1 with
  | 0 => right; simp [preCheck]
  | 1 =>
    by_cases hg2 : g2 = 1
    · left; subst hg2; simp [preCheck, hac]
    · right
      have : (g2 == 1) = false := by simp [hg2]
      simp [preCheck, this]
  | k + 2 =>
    right
    apply preCheck_none
    intro a ha
    simp only [List.getElem?_cons_succ] at ha
    exact h a (List.mem_of_getElem? ha)

theorem render_eq (o : Opts) :
    render o = optStr o.fill ++ alignStr o.align ++ tailText o.minWidth o.precision o.repr := by
  simp [render, tailText, wText, pText]

theorem roundtrip (o : Opts) (g g2 : Nat) (hwf : WF o) (hg : GraphemeOk o g g2) :
    parse (render o) g g2 = .ok o := by
  obtain ⟨align, w, p, fill, r⟩ := o
  simp only [WF, wf, Bool.and_eq_true] at hwf
  obtain ⟨⟨hw, hp⟩, hfill⟩ := hwf
  have hwb : ∀ n, w = some n → n ≤ u32Max := by
    intro n hn; subst hn; simpa using hw
  have hpb : ∀ n, p = some n → n ≤ u32Max := by
    intro n hn; subst hn; simpa using hp
  have hit : iters w p r ≤ (tailText w p r).length := iters_le w p r
  have hta := tail_headIs_align w p r
  have htl : ∀ (pos : PPos) (o : Opts) (f : Nat), iters w p r ≤ f → (pos = .start ∨ pos = .minWidth) →
      o.minWidth = none → o.precision = none → o.repr = none →
      loop (optStr fill ++ alignStr align ++ tailText w p r) g f pos o (tailText w p r)
        = .ok { o with minWidth := w, precision := p, repr := r } :=
    fun pos o f hf hpos h1 h2 h3 => loop_tail _ g w p r pos o f hf hwb hpb hpos h1 h2 h3
  have hTall : ∀ x ∈ tailText w p r, isAlignCh x = false := tail_no_align w p r
  rw [render_eq]
  generalize hT : tailText w p r = T at *
  cases fill with
  | none =>
    by_cases ha : align = .default
    · subst ha
      simp only [optStr, alignStr, List.nil_append] at htl ⊢
      have hpc : preCheck T g g2 = none :=
        preCheck_none T g g2 (fun a ha => hTall a (List.mem_of_getElem? ha))
      simp only [parse, hpc]
      rw [htl .start {} _ hit (Or.inl rfl) rfl rfl rfl]
    · obtain ⟨ac, hs, hac, hao⟩ := alignStr_spec align ha
      simp only [optStr, hs, List.nil_append, List.cons_append, List.length_cons] at htl ⊢
      have hpc : preCheck (ac :: T) g g2 = none := preCheck_none_cons ac T g g2 hTall
      simp only [parse, hpc, List.length_cons]
      rw [loop_step _ _ _ _ _ _ _ _ _ _ (step_align _ g ac _ .start {} hac (Or.inr ⟨rfl, hta⟩))]
      rw [htl .minWidth _ _ hit (Or.inr rfl) rfl rfl rfl, hao]
  | some fl =>
    match fl, hfill, hg with
    | [], hfill, _ => simp at hfill
    | [c], hfill, _ =>
      by_cases ha : align = .default
      · subst ha
        simp only [bne_self_eq_false, Bool.false_eq_true, if_false] at hfill
        by_cases hc : c = 48
        · subst hc
          simp only [beq_self_eq_true, if_true] at hfill
          obtain ⟨n, rfl⟩ : ∃ n, w = some n := Option.isSome_iff_exists.mp hfill
          obtain ⟨m, tl, he, hm, _⟩ := digitsAux_head (n + 1) n (by omega)
          have he' : digits n = (48 + m) :: tl := he
          have hrd : headIs isDigit T = true := by
            rw [← hT]
            simp [tailText, wText, optStr, he', headIs, isDigit_add m hm]
          simp only [optStr, alignStr, List.append_nil, List.cons_append, List.nil_append,
            List.length_cons] at htl ⊢
          have hpc : preCheck (48 :: T) g g2 = none := preCheck_none_cons 48 T g g2 hTall
          simp only [parse, hpc, List.length_cons]
          rw [loop_step _ _ _ _ _ _ _ _ _ _ (step_zero _ g _ {} hta hrd)]
          rw [htl .minWidth _ _ hit (Or.inr rfl) rfl rfl rfl]
        · have hc' : (c == 48) = false := by simp [hc]
          simp only [hc', Bool.false_eq_true, if_false, Bool.and_eq_true, Option.isNone_iff_eq_none] at hfill
          obtain ⟨⟨⟨hpl, hwn⟩, hpn⟩, hrn⟩ := hfill
          subst hwn; subst hpn; subst hrn
          have hT0 : T = [] := by rw [← hT]; rfl
          subst hT0
          simp only [optStr, alignStr, List.append_nil, List.length_cons, List.length_nil]
          have hpc : preCheck [c] g g2 = none := preCheck_none_cons c [] g g2 (by simp)
          simp only [parse, hpc, List.length_cons, List.length_nil]
          have hgen := step_generic [c] g c [] {} hpl (by simp [headIs]) (by simp)
          rw [loop_step _ _ _ _ _ _ _ _ _ _ hgen]
          obtain ⟨k, hk⟩ : ∃ k, max g 1 = k + 1 := ⟨max g 1 - 1, by omega⟩
          simp [hk, loop_nil]
      · obtain ⟨ac, hs, hac, hao⟩ := alignStr_spec align ha
        simp only [optStr, hs, List.cons_append, List.nil_append, List.length_cons] at htl ⊢
        rcases preCheck_fill1 c ac T g g2 hac hTall with hpc | hpc
        · -- the new check takes the fill
          simp only [parse, hpc, List.length_cons]
          rw [htl .minWidth _ _ (by omega) (Or.inr rfl) rfl rfl rfl, hao]
        · simp only [parse, hpc, List.length_cons]
          rw [loop_step _ _ _ _ _ _ _ _ _ _ (step_fill1 _ g c ac _ {} hac)]
          rw [htl .minWidth _ _ (by omega) (Or.inr rfl) rfl rfl rfl, hao]
    | c :: d :: t, hfill, hg =>
      have hg' : g = t.length + 2 ∧ (align = .default ∨ g2 = 1) := by
        simpa [GraphemeOk, graphemeOk] using hg
      obtain ⟨hg1, hg2⟩ := hg'
      by_cases ha : align = .default
      · -- a lone cluster: the per-character arms, as before
        subst ha
        simp only [bne_self_eq_false, Bool.false_eq_true, if_false, Bool.and_eq_true,
          Bool.not_eq_true', bne_iff_ne, ne_eq, Option.isNone_iff_eq_none] at hfill
        obtain ⟨⟨⟨⟨⟨hpl, hc46⟩, hda⟩, hw0⟩, hp0⟩, hr0⟩ := hfill
        subst hw0; subst hp0; subst hr0
        have hT0 : T = [] := by rw [← hT]; rfl
        subst hT0
        simp only [optStr, alignStr, List.append_nil]
        have hpc : preCheck (c :: d :: t) g g2 = none := by
          apply preCheck_none
          intro a ha
          have : (c :: d :: t)[g]? = none := List.getElem?_eq_none (by simp [hg1])
          simp [this] at ha
        simp only [parse, hpc]
        have hmax : max g 1 = (c :: d :: t).length := by simp [hg1]
        have hdot : (c == 46 && !(d :: t).isEmpty) = false := by simp [hc46]
        have hgen := step_generic (c :: d :: t) g c (d :: t) {} hpl (by simpa [headIs] using hda) hdot
        rw [hmax] at hgen
        simp only [List.take_length, List.drop_length] at hgen
        have hlen : (c :: d :: t).length = (t.length + 1) + 1 := by simp
        rw [hlen, loop_step _ _ _ _ _ _ _ _ _ _ hgen, loop_nil]
      · -- a cluster in front of an alignment: the check in front of the loop takes it
        have hg2' : g2 = 1 := by
          rcases hg2 with h | h
          · exact absurd h ha
          · exact h
        obtain ⟨ac, hs, hac, hao⟩ := alignStr_spec align ha
        simp only [optStr, hs] at htl ⊢
        have hidx : ((c :: d :: t) ++ [ac] ++ T)[g]? = some ac := by
          rw [hg1, List.append_assoc]
          rw [List.getElem?_append_right (by simp)]
          simp
        have htake : ((c :: d :: t) ++ [ac] ++ T).take g = c :: d :: t := by
          rw [hg1, List.append_assoc]
          have : t.length + 2 = (c :: d :: t).length := by simp
          rw [this, List.take_left']
          rfl
        have hdrop : ((c :: d :: t) ++ [ac] ++ T).drop (g + 1) = T := by
          rw [hg1]
          have : t.length + 2 + 1 = ((c :: d :: t) ++ [ac]).length := by simp
          rw [this, List.drop_left']
          rfl
        have hpc : preCheck ((c :: d :: t) ++ [ac] ++ T) g g2
            = some ({ fill := some (c :: d :: t), align := alignOf ac }, T) := by
          simp [preCheck, hg2', hidx, hac, htake, hdrop, hg1]
        simp only [parse, hpc]
        rw [htl .minWidth _ _ (by simp; omega) (Or.inr rfl) rfl rfl rfl, hao]

/-! ## format options: everything `parse` returns is well-formed -/

def bounds (o : Opts) : Bool :=
  (match o.minWidth with | some w => decide (w ≤ u32Max) | none => true)
  && (match o.precision with | some p => decide (p ≤ u32Max) | none => true)

def wfFill (o : Opts) : Bool :=
  match o.fill with
  | none => true
  | some [] => false
  | some [c] =>
    if o.align != .default then true
    else if c == 48 then o.minWidth.isSome
    else plainStart c && o.minWidth.isNone && o.precision.isNone && o.repr.isNone
  | some (c :: d :: _) =>
    if o.align != .default then true
    else plainStart c && c != 46 && !isAlignCh d
      && o.minWidth.isNone && o.precision.isNone && o.repr.isNone

theorem wf_eq (o : Opts) : wf o = (bounds o && wfFill o) := rfl

/-- what is known about the options at each parse position -/
def posFacts (s : List Nat) (pos : PPos) (o : Opts) (rest : List Nat) : Prop :=
  match pos with
  | .start => o = {} ∧ rest = s
  | .alignment => o.align = .default ∧ o.minWidth = none ∧ o.precision = none ∧ o.repr = none
  | .minWidth => o.minWidth = none ∧ o.precision = none ∧ o.repr = none
      ∧ (o.align = .default → o.fill = none ∨ o.fill = some [48])
  | .precision => o.minWidth.isSome = true ∧ o.precision = none ∧ o.repr = none
  | .type => o.precision.isSome = true ∧ o.repr = none
  | .end => True

/-- The loop invariant of `parse`. The only state that is not yet well-formed is a zero fill that
still waits for its width (`0` seen, a digit follows). -/
def J (s : List Nat) (pos : PPos) (o : Opts) (rest : List Nat) : Prop :=
  bounds o = true ∧ posFacts s pos o rest ∧
    (wfFill o = true
      ∨ (pos = .minWidth ∧ o.fill = some [48] ∧ o.align = .default ∧ headIs isDigit rest = true))

theorem consumeDigits_bound (cs : List Nat) (n m : Nat) (r : List Nat)
    (h : consumeDigits n cs = some (m, r)) (hn : n ≤ u32Max) : m ≤ u32Max := by
  induction cs generalizing n with
  | nil => simp [consumeDigits] at h; omega
  | cons c cs ih =>
    simp only [consumeDigits] at h
    split at h
    · split at h
      · simp at h
      · rename_i hle
        exact ih _ h (by omega)
    · simp at h; omega

theorem alignOf_ne_default (c : Nat) : alignOf c ≠ .default := by
  simp only [alignOf]
  split
  · simp
  · split <;> simp

theorem isDigit_sub_le (c : Nat) (h : isDigit c = true) : c - 48 ≤ u32Max := by
  simp [isDigit] at h
  simp [u32Max]
  omega

/-- setting a non-default alignment keeps the fill condition -/
theorem wfFill_align (o : Opts) (a : Align) (ha : a ≠ .default) (h : wfFill o = true) :
    wfFill { o with align := a } = true := by
  obtain ⟨al, w, p, f, r⟩ := o
  have hb : (a != Align.default) = true := by simp [ha]
  match f, h with
  | none, _ => simp [wfFill]
  | some [], h => simp [wfFill] at h
  | some [c], _ => simp [wfFill, hb]
  | some (c :: d :: t), _ => simp [wfFill, hb]

/-- with a non-default alignment the fill condition does not look at width/precision/representation -/
theorem wfFill_congr_aligned (o o' : Opts) (hal : o.align ≠ .default) (ha : o'.align = o.align)
    (hf : o'.fill = o.fill) (h : wfFill o = true) : wfFill o' = true := by
  obtain ⟨al, w, p, f, r⟩ := o
  obtain ⟨al', w', p', f', r'⟩ := o'
  simp only at ha hf hal
  subst ha; subst hf
  have hb : (al' != Align.default) = true := by simp [hal]
  match f', h with
  | none, _ => simp [wfFill]
  | some [], h => simp [wfFill] at h
  | some [c], _ => simp [wfFill, hb]
  | some (c :: d :: t), _ => simp [wfFill, hb]


theorem posIn_sa (pos : PPos) : posIn pos [.start, .alignment] = true ↔ pos = .start ∨ pos = .alignment := by
  cases pos <;> decide
theorem posIn_sm (pos : PPos) : posIn pos [.start, .minWidth] = true ↔ pos = .start ∨ pos = .minWidth := by
  cases pos <;> decide
theorem posIn_smp (pos : PPos) :
    posIn pos [.start, .minWidth, .precision] = true ↔ pos = .start ∨ pos = .minWidth ∨ pos = .precision := by
  cases pos <;> decide
theorem posIn_smpt (pos : PPos) :
    posIn pos [.start, .minWidth, .precision, .type] = true
      ↔ pos = .start ∨ pos = .minWidth ∨ pos = .precision ∨ pos = .type := by
  cases pos <;> decide

theorem bounds_default : bounds {} = true := by decide
theorem wfFill_default : wfFill {} = true := by decide

/-- One iteration of `parse` keeps the invariant. -/
theorem step_J (s : List Nat) (g next : Nat) (rest : List Nat) (pos pos' : PPos) (o o' : Opts)
    (rest' : List Nat)
    (h : step s g next rest pos o = .ok (pos', o', rest'))
    (hJ : J s pos o (next :: rest)) : J s pos' o' rest' := by
  obtain ⟨hb, hpf, hfill⟩ := hJ
  simp only [step] at h
  by_cases c1 : (pos == PPos.start && headIs isAlignCh rest) = true
  · -- single-character fill followed by an alignment
    rw [if_pos c1] at h
    simp only [Bool.and_eq_true, beq_iff_eq] at c1
    obtain ⟨hp, _⟩ := c1
    subst hp
    obtain ⟨ho, _⟩ := hpf
    subst ho
    cases rest with
    | nil => simp at h
    | cons p r =>
      simp only [Except.ok.injEq, Prod.mk.injEq] at h
      obtain ⟨rfl, rfl, rfl⟩ := h
      have ha := alignOf_ne_default p
      refine ⟨rfl, ⟨rfl, rfl, rfl, fun h => absurd h ha⟩, Or.inl ?_⟩
      simp [wfFill, ha]
  · rw [if_neg c1] at h
    by_cases c2 : (isAlignCh next && posIn pos [PPos.start, PPos.alignment]) = true
    · -- alignment
      rw [if_pos c2] at h
      simp only [Bool.and_eq_true, posIn_sa] at c2
      simp only [Except.ok.injEq, Prod.mk.injEq] at h
      obtain ⟨rfl, rfl, rfl⟩ := h
      have ha := alignOf_ne_default next
      rcases c2.2 with hp | hp
      · subst hp
        obtain ⟨ho, _⟩ := hpf
        subst ho
        exact ⟨rfl, ⟨rfl, rfl, rfl, fun h => absurd h ha⟩, Or.inl (by simp [wfFill])⟩
      · subst hp
        obtain ⟨_, hw, hpr, hr⟩ := hpf
        have hwf : wfFill o = true := by
          rcases hfill with h | h
          · exact h
          · exact absurd h.1 (by decide)
        refine ⟨hb, ⟨hw, hpr, hr, fun h => absurd h ha⟩, Or.inl (wfFill_align o _ ha hwf)⟩
    · rw [if_neg c2] at h
      by_cases c3 : (next == 48 && headIs isDigit rest && posIn pos [PPos.start, PPos.minWidth]) = true
      · -- zero fill
        rw [if_pos c3] at h
        simp only [Bool.and_eq_true, posIn_sm] at c3
        obtain ⟨⟨_, hdig⟩, hpos⟩ := c3
        simp only [Except.ok.injEq, Prod.mk.injEq] at h
        obtain ⟨rfl, rfl, rfl⟩ := h
        have hnone : o.minWidth = none ∧ o.precision = none ∧ o.repr = none := by
          rcases hpos with hp | hp
          · subst hp; obtain ⟨ho, _⟩ := hpf; subst ho; exact ⟨rfl, rfl, rfl⟩
          · subst hp; exact ⟨hpf.1, hpf.2.1, hpf.2.2.1⟩
        refine ⟨hb, ⟨hnone.1, hnone.2.1, hnone.2.2, fun _ => Or.inr rfl⟩, ?_⟩
        by_cases hal : o.align = .default
        · exact Or.inr ⟨rfl, rfl, hal, hdig⟩
        · left
          have : (o.align != Align.default) = true := by simp [hal]
          simp [wfFill, this]
      · rw [if_neg c3] at h
        by_cases c4 : (isDigit next && posIn pos [PPos.start, PPos.minWidth]) = true
        · -- min width
          rw [if_pos c4] at h
          simp only [Bool.and_eq_true, posIn_sm] at c4
          obtain ⟨hdn, hpos⟩ := c4
          cases hcd : consumeDigits (next - 48) rest with
          | none => simp [hcd] at h
          | some res =>
            obtain ⟨n, r⟩ := res
            simp only [hcd, Except.ok.injEq, Prod.mk.injEq] at h
            obtain ⟨rfl, rfl, rfl⟩ := h
            have hn : n ≤ u32Max := consumeDigits_bound rest _ n r hcd (isDigit_sub_le next hdn)
            have hfacts : o.minWidth = none ∧ o.precision = none ∧ o.repr = none
                ∧ (o.align = .default → o.fill = none ∨ o.fill = some [48]) := by
              rcases hpos with hp | hp
              · subst hp; obtain ⟨ho, _⟩ := hpf; subst ho
                exact ⟨rfl, rfl, rfl, fun _ => Or.inl rfl⟩
              · subst hp; exact hpf
            obtain ⟨hw0, hp0, hr0, hdef⟩ := hfacts
            have hb' : bounds { o with minWidth := some n } = true := by
              simp [bounds, hp0, hn]
            refine ⟨hb', ⟨rfl, hp0, hr0⟩, Or.inl ?_⟩
            by_cases hal : o.align = .default
            · rcases hdef hal with hf | hf
              · simp [wfFill, hf]
              · simp [wfFill, hf, hal]
            · have hwf : wfFill o = true := by
                rcases hfill with h | h
                · exact h
                · exact absurd h.2.2.1 hal
              exact wfFill_congr_aligned o _ hal rfl rfl hwf
        · rw [if_neg c4] at h
          by_cases c5 : (next == 46 && !rest.isEmpty && posIn pos [PPos.start, PPos.minWidth, PPos.precision]) = true
          · -- precision
            rw [if_pos c5] at h
            simp only [Bool.and_eq_true, posIn_smp, beq_iff_eq] at c5
            obtain ⟨⟨hn46, _⟩, hpos⟩ := c5
            subst hn46
            cases rest with
            | nil => simp at h
            | cons d r0 =>
              simp only at h
              by_cases hd : isDigit d = true
              · rw [if_pos hd] at h
                cases hcd : consumeDigits (d - 48) r0 with
                | none => simp [hcd] at h
                | some res =>
                  obtain ⟨n, r⟩ := res
                  simp only [hcd, Except.ok.injEq, Prod.mk.injEq] at h
                  obtain ⟨rfl, rfl, rfl⟩ := h
                  have hn : n ≤ u32Max := consumeDigits_bound r0 _ n r hcd (isDigit_sub_le d hd)
                  -- the zero-fill exception cannot be pending: the next character is `.`
                  have hwf : wfFill o = true := by
                    rcases hfill with h | h
                    · exact h
                    · have := h.2.2.2
                      simp [headIs, isDigit] at this
                  have hr0 : o.repr = none := by
                    rcases hpos with hp | hp | hp
                    · subst hp; obtain ⟨ho, _⟩ := hpf; subst ho; rfl
                    · subst hp; exact hpf.2.2.1
                    · subst hp; exact hpf.2.2
                  have hb' : bounds { o with precision := some n } = true := by
                    simp only [bounds, Bool.and_eq_true] at hb ⊢
                    exact ⟨hb.1, by simp [hn]⟩
                  refine ⟨hb', ⟨rfl, hr0⟩, Or.inl ?_⟩
                  by_cases hal : o.align = .default
                  · -- default alignment: fill is none, or a zero fill that already has its width
                    obtain ⟨al, w, p, f, rr⟩ := o
                    simp only at hal hr0
                    subst hal
                    rcases hpos with hp | hp | hp
                    · subst hp; obtain ⟨ho, _⟩ := hpf
                      simp only [Opts.mk.injEq] at ho
                      obtain ⟨_, _, _, hf, _⟩ := ho
                      subst hf
                      simp [wfFill]
                    · subst hp
                      obtain ⟨hw0, _, _, hdef⟩ := hpf
                      simp only at hw0 hdef
                      rcases hdef trivial with hf | hf
                      · subst hf; simp [wfFill]
                      · subst hf; subst hw0
                        simp [wfFill] at hwf
                    · subst hp
                      obtain ⟨hws, _, _⟩ := hpf
                      simp only at hws
                      match f, hwf with
                      | none, _ => simp [wfFill]
                      | some [], hwf => simp [wfFill] at hwf
                      | some [c], hwf =>
                        by_cases hc : c = 48
                        · subst hc; simp [wfFill, hws]
                        · have hc' : (c == 48) = false := by simp [hc]
                          simp [wfFill, hc'] at hwf
                          obtain ⟨⟨⟨_, hwn⟩, _⟩, _⟩ := hwf
                          simp [hwn] at hws
                      | some (c :: d' :: t), hwf =>
                        simp [wfFill] at hwf
                        obtain ⟨⟨⟨_, hwn⟩, _⟩, _⟩ := hwf
                        simp [hwn] at hws
                  · exact wfFill_congr_aligned o _ hal rfl rfl hwf
              · rw [if_neg hd] at h
                simp at h
          · rw [if_neg c5] at h
            by_cases c6 : ((reprOf next).isSome && posIn pos [PPos.start, PPos.minWidth, PPos.precision, PPos.type]) = true
            · -- representation
              rw [if_pos c6] at h
              simp only [Bool.and_eq_true, posIn_smpt] at c6
              obtain ⟨_, hpos⟩ := c6
              simp only [Except.ok.injEq, Prod.mk.injEq] at h
              obtain ⟨rfl, rfl, rfl⟩ := h
              have hb' : bounds { o with repr := reprOf next } = true := hb
              refine ⟨hb', trivial, Or.inl ?_⟩
              have hwf : wfFill o = true := by
                rcases hfill with h | h
                · exact h
                · -- pending zero fill: the next character would be a digit, but then the width arm fired
                  obtain ⟨hp, _, _, hdg⟩ := h
                  subst hp
                  have : isDigit next = true := by simpa [headIs] using hdg
                  simp [this, posIn_sm] at c4
              by_cases hal : o.align = .default
              · obtain ⟨al, w, p, f, rr⟩ := o
                simp only at hal
                subst hal
                rcases hpos with hp | hp | hp | hp
                · subst hp; obtain ⟨ho, _⟩ := hpf
                  simp only [Opts.mk.injEq] at ho
                  obtain ⟨_, _, _, hf, _⟩ := ho
                  subst hf
                  simp [wfFill]
                · subst hp
                  obtain ⟨hw0, _, _, hdef⟩ := hpf
                  simp only at hw0 hdef
                  rcases hdef trivial with hf | hf
                  · subst hf; simp [wfFill]
                  · subst hf; subst hw0
                    simp [wfFill] at hwf
                · subst hp
                  obtain ⟨hws, _, _⟩ := hpf
                  simp only at hws
                  match f, hwf with
                  | none, _ => simp [wfFill]
                  | some [], hwf => simp [wfFill] at hwf
                  | some [c], hwf =>
                    by_cases hc : c = 48
                    · subst hc; simp [wfFill, hws]
                    · have hc' : (c == 48) = false := by simp [hc]
                      simp [wfFill, hc'] at hwf
                      obtain ⟨⟨⟨_, hwn⟩, _⟩, _⟩ := hwf
                      simp [hwn] at hws
                  | some (c :: d' :: t), hwf =>
                    simp [wfFill] at hwf
                    obtain ⟨⟨⟨_, hwn⟩, _⟩, _⟩ := hwf
                    simp [hwn] at hws
                · subst hp
                  obtain ⟨hps, _⟩ := hpf
                  simp only at hps
                  match f, hwf with
                  | none, _ => simp [wfFill]
                  | some [], hwf => simp [wfFill] at hwf
                  | some [c], hwf =>
                    by_cases hc : c = 48
                    · subst hc
                      simp [wfFill] at hwf ⊢
                      exact hwf
                    · have hc' : (c == 48) = false := by simp [hc]
                      simp [wfFill, hc'] at hwf
                      obtain ⟨⟨⟨_, _⟩, hpn⟩, _⟩ := hwf
                      simp [hpn] at hps
                  | some (c :: d' :: t), hwf =>
                    simp [wfFill] at hwf
                    obtain ⟨⟨_, hpn⟩, _⟩ := hwf
                    simp [hpn] at hps
              · exact wfFill_congr_aligned o _ hal rfl rfl hwf
            · rw [if_neg c6] at h
              by_cases c7 : (pos == PPos.start) = true
              · -- the first grapheme cluster is the fill
                rw [if_pos c7] at h
                simp only [beq_iff_eq] at c7
                subst c7
                obtain ⟨ho, hs⟩ := hpf
                subst ho
                simp only [Except.ok.injEq, Prod.mk.injEq] at h
                obtain ⟨rfl, rfl, rfl⟩ := h
                refine ⟨rfl, ⟨rfl, rfl, rfl, rfl⟩, Or.inl ?_⟩
                -- facts from the arms that did not fire at `Start`
                have hstart : (PPos.start == PPos.start) = true := by decide
                have hra : headIs isAlignCh rest = false := by
                  simpa [hstart] using c1
                have hna : isAlignCh next = false := by
                  have : posIn PPos.start [PPos.start, PPos.alignment] = true := by decide
                  simpa [this] using c2
                have hnd : isDigit next = false := by
                  have : posIn PPos.start [PPos.start, PPos.minWidth] = true := by decide
                  simpa [this] using c4
                have hnr : (reprOf next).isSome = false := by
                  have : posIn PPos.start [PPos.start, PPos.minWidth, PPos.precision, PPos.type] = true := by decide
                  simpa [this] using c6
                have hdot : (next == 46 && !rest.isEmpty) = false := by
                  have : posIn PPos.start [PPos.start, PPos.minWidth, PPos.precision] = true := by decide
                  simpa [this] using c5
                have hplain : plainStart next = true := by
                  simp only [plainStart, hna, hnd, Bool.not_false, Bool.true_and]
                  cases hro : reprOf next with
                  | none => rfl
                  | some x => simp [hro] at hnr
                have h48 : (next == 48) = false := by
                  simp [isDigit] at hnd
                  simp
                  omega
                obtain ⟨k, hk⟩ : ∃ k, max g 1 = k + 1 := ⟨max g 1 - 1, by omega⟩
                rw [← hs, hk]
                simp only [List.take_succ_cons]
                cases htk : rest.take k with
                | nil => simp [wfFill, h48, hplain]
                | cons d' t' =>
                  cases rest with
                  | nil => simp at htk
                  | cons d r0 =>
                    cases k with
                    | zero => simp at htk
                    | succ k' =>
                      simp only [List.take_succ_cons, List.cons.injEq] at htk
                      obtain ⟨rfl, _⟩ := htk
                      have hda : isAlignCh d = false := by simpa [headIs] using hra
                      have h46 : (next == 46) = false := by simpa using hdot
                      have h46' : (next != 46) = true := by simp [bne, h46]
                      simp [wfFill, hplain, h46', hda]
              · rw [if_neg c7] at h
                simp at h

theorem loop_J (s : List Nat) (g : Nat) : ∀ (fuel : Nat) (pos : PPos) (o : Opts) (rest : List Nat) (o' : Opts),
    J s pos o rest → loop s g fuel pos o rest = .ok o' → wf o' = true := by
  intro fuel
  induction fuel with
  | zero =>
    intro pos o rest o' hJ h
    cases rest with
    | nil =>
      simp [loop] at h
      subst h
      obtain ⟨hb, _, hf⟩ := hJ
      rcases hf with hf | hf
      · simp [wf_eq, hb, hf]
      · simp [headIs] at hf
    | cons c cs => simp [loop] at h
  | succ fuel ih =>
    intro pos o rest o' hJ h
    cases rest with
    | nil =>
      simp [loop] at h
      subst h
      obtain ⟨hb, _, hf⟩ := hJ
      rcases hf with hf | hf
      · simp [wf_eq, hb, hf]
      · simp [headIs] at hf
    | cons c cs =>
      simp only [loop] at h
      cases hst : step s g c cs pos o with
      | error e => simp [hst] at h
      | ok res =>
        obtain ⟨pos', o1, r'⟩ := res
        simp only [hst] at h
        exact ih pos' o1 r' o' (step_J s g c cs pos pos' o o1 r' hst hJ) h

/-- Everything `parse` returns is well-formed. -/
theorem parse_wf (s : List Nat) (g1 g2 : Nat) (o : Opts) (h : parse s g1 g2 = .ok o) : WF o := by
  unfold parse at h
  cases hpc : preCheck s g1 g2 with
  | none =>
    simp only [hpc] at h
    exact loop_J s g1 s.length .start {} s o ⟨bounds_default, ⟨rfl, rfl⟩, Or.inl wfFill_default⟩ h
  | some res =>
    obtain ⟨o0, rest⟩ := res
    simp only [hpc] at h
    -- the pre-filled options: a non-empty fill and a non-default alignment
    unfold preCheck at hpc
    split at hpc
    · rename_i hg
      cases hs : s[g1]? with
      | none => simp [hs] at hpc
      | some a =>
        simp only [hs] at hpc
        split at hpc
        · simp only [Option.some.injEq, Prod.mk.injEq] at hpc
          obtain ⟨rfl, rfl⟩ := hpc
          have hg1 : 1 ≤ g1 := by
            simp only [Bool.and_eq_true, decide_eq_true_eq] at hg
            exact hg.1
          have hlen : g1 < s.length := by
            rcases Nat.lt_or_ge g1 s.length with hc | hc
            · exact hc
            · have : s[g1]? = none := List.getElem?_eq_none hc
              simp [this] at hs
          have ha := alignOf_ne_default a
          have hwfF : wfFill { fill := some (s.take g1), align := alignOf a } = true := by
            have hb : (alignOf a != Align.default) = true := by simp [ha]
            cases ht : s.take g1 with
            | nil =>
              have : (s.take g1).length = g1 := by simp [List.length_take]; omega
              rw [ht] at this
              simp at this
              omega
            | cons c tl =>
              cases tl with
              | nil => simp [wfFill, hb]
              | cons d tl' => simp [wfFill, hb]
          exact loop_J s g1 s.length .minWidth _ _ o
            ⟨rfl, ⟨rfl, rfl, rfl, fun h => absurd h ha⟩, Or.inl hwfF⟩ h
        · simp at hpc
    · simp at hpc

end KotoVerif.C11.Lemmas
