/-
C12 — helper lemmas for `Props/C12.lean` (source map, span stack, trace unwinding, excerpt
arithmetic). Core Lean only.
-/
import KotoVerif.Model.SrcMap
import KotoVerif.Model.Excerpt
import KotoVerif.Model.Trace

namespace KotoVerif.C12L
open KotoVerif.SrcMap KotoVerif.Excerpt KotoVerif.Trace

/-! ## 1. `push` / `compress` -/

/-- the fold of `push` from any accumulator -/
theorem foldl_push (es m : List Entry) :
    es.foldl (fun m e => push m e.1 e.2) m
      = m ++ compressFrom (m.getLast?.map (·.2)) es := by
  induction es generalizing m with
  | nil => simp [compressFrom]
  | cons e rest ih =>
    obtain ⟨i, s⟩ := e
    rw [List.foldl_cons, ih]
    cases hm : m.getLast? with
    | none =>
      have hnil : m = [] := List.getLast?_eq_none_iff.mp hm
      subst hnil
      simp [push, compressFrom]
    | some l =>
      by_cases hl : l.2 = s
      · simp [push, hm, hl, compressFrom]
      · simp [push, hm, hl, compressFrom]

/-! ## 2. `lookup` -/

theorem lookupGo_of_lt (xs : List Entry) (q : Nat) (r : Option Span)
    (h : ∀ e ∈ xs, q < e.1) : lookupGo xs q r = r := by
  cases xs with
  | nil => rfl
  | cons e rest =>
    obtain ⟨i, s⟩ := e
    have hq : q < i := h (i, s) (by simp)
    have hn : ¬ i ≤ q := by omega
    simp [lookupGo, hn]

theorem mem_compressFrom {e : Entry} {last : Option Span} {es : List Entry}
    (h : e ∈ compressFrom last es) : e ∈ es := by
  induction es generalizing last with
  | nil => simp [compressFrom] at h
  | cons x rest ih =>
    obtain ⟨i, s⟩ := x
    unfold compressFrom at h
    split at h
    · exact List.mem_cons_of_mem _ (ih h)
    · rcases List.mem_cons.mp h with h | h
      · simp [h]
      · exact List.mem_cons_of_mem _ (ih h)

theorem lookupGo_compressFrom (es : List Entry) (q : Nat) :
    ∀ (last r : Option Span), es.Pairwise (fun a b => a.1 ≤ b.1) →
      (∀ s, last = some s → r = some s) →
      lookupGo (compressFrom last es) q r = lookupGo es q r := by
  induction es with
  | nil => intros; rfl
  | cons x rest ih =>
    obtain ⟨i, s⟩ := x
    intro last r hs hr
    have hs' := List.pairwise_cons.mp hs
    unfold compressFrom
    split
    · rename_i hl
      have hr' := hr s hl
      by_cases hq : i ≤ q
      · simp only [lookupGo, hq, if_true]
        rw [← hr']
        exact ih last r hs'.2 hr
      · have hall : ∀ e ∈ compressFrom last rest, q < e.1 := fun e he => by
          have := hs'.1 e (mem_compressFrom he)
          simp only at this
          omega
        rw [lookupGo_of_lt _ _ _ hall]
        simp [lookupGo, hq]
    · simp only [lookupGo]
      split
      · exact ih (some s) (some s) hs'.2 (fun _ h => h)
      · rfl

theorem lookupGo_spec (m : List Entry) (q : Nat) (r : Option Span)
    (h : m.Pairwise (fun a b => a.1 ≤ b.1)) :
    lookupGo m q r
      = (((m.filter (fun e => decide (e.1 ≤ q))).getLast?).map (·.2)).or r := by
  induction m generalizing r with
  | nil => simp [lookupGo]
  | cons x rest ih =>
    obtain ⟨i, s⟩ := x
    have hs' := List.pairwise_cons.mp h
    by_cases hq : i ≤ q
    · simp only [lookupGo, hq, if_true]
      rw [ih (some s) hs'.2]
      have hf : List.filter (fun e : Entry => decide (e.1 ≤ q)) ((i, s) :: rest)
          = (i, s) :: List.filter (fun e : Entry => decide (e.1 ≤ q)) rest := by
        simp [hq]
      rw [hf, List.getLast?_cons]
      cases (List.filter (fun e : Entry => decide (e.1 ≤ q)) rest).getLast? <;> simp
    · have hnil : List.filter (fun e : Entry => decide (e.1 ≤ q)) ((i, s) :: rest) = [] := by
        rw [List.filter_eq_nil_iff]
        intro a ha
        rcases List.mem_cons.mp ha with ha | ha
        · subst ha; simpa using hq
        · have := hs'.1 a ha
          simp only at this
          simp only [decide_eq_true_eq]
          omega
      rw [hnil]
      simp [lookupGo, hq]

theorem lookupGo_hit (m : List Entry) (q : Nat) (sp : Span) (r : Option Span)
    (h : m.Pairwise (fun a b => a.1 < b.1)) (hm : (q, sp) ∈ m) :
    lookupGo m q r = some sp := by
  induction m generalizing r with
  | nil => simp at hm
  | cons x rest ih =>
    obtain ⟨i, s⟩ := x
    have hs' := List.pairwise_cons.mp h
    rcases List.mem_cons.mp hm with hx | hx
    · have hi : q = i := congrArg Prod.fst hx
      have hsp : sp = s := congrArg Prod.snd hx
      subst hi hsp
      simp only [lookupGo, Nat.le_refl, if_true]
      apply lookupGo_of_lt
      intro e he
      exact hs'.1 e he
    · have hlt : i < q := hs'.1 (q, sp) hx
      have hle : i ≤ q := by omega
      simp only [lookupGo, hle, if_true]
      exact ih (some s) hs'.2 hx

theorem lookupGo_nospan (m : List Entry) (p q : Nat) (r : Option Span) (hpq : p ≤ q)
    (hnone : ∀ e ∈ m, ¬ (p < e.1 ∧ e.1 ≤ q)) : lookupGo m q r = lookupGo m p r := by
  induction m generalizing r with
  | nil => rfl
  | cons x rest ih =>
    obtain ⟨i, s⟩ := x
    have hx := hnone (i, s) (by simp)
    simp only at hx
    have hrest : ∀ e ∈ rest, ¬ (p < e.1 ∧ e.1 ≤ q) := fun e he => hnone e (List.mem_cons_of_mem _ he)
    by_cases hp : i ≤ p
    · have hq : i ≤ q := by omega
      simp only [lookupGo, hp, hq, if_true]
      exact ih (some s) hrest
    · have hq : ¬ i ≤ q := by omega
      simp [lookupGo, hp, hq]

/-! ## 3. the span stack -/

theorem compile_stack (t : Steps) (s : CState) : (compile t s).stack = s.stack := by
  induction t generalizing s with
  | done => rfl
  | op n rest ih =>
    simp only [compile]
    rw [ih]
    split <;> rfl
  | opNoSpan n rest ih =>
    simp only [compile]
    rw [ih]
  | node sp body rest ihb ihr =>
    simp only [compile]
    rw [ihr]
    simp [ihb]

theorem annot_op (n : Nat) (rest : Steps) (cur : Span) (ip : Nat) :
    annot (.op n rest) cur ip
      = ((ip, cur) :: (annot rest cur (ip + n)).1, (annot rest cur (ip + n)).2) := rfl

theorem annot_opNoSpan (n : Nat) (rest : Steps) (cur : Span) (ip : Nat) :
    annot (.opNoSpan n rest) cur ip = annot rest cur (ip + n) := rfl

theorem annot_node (sp : Span) (body rest : Steps) (cur : Span) (ip : Nat) :
    annot (.node sp body rest) cur ip
      = ((annot body sp ip).1 ++ (annot rest cur (annot body sp ip).2).1,
         (annot rest cur (annot body sp ip).2).2) := rfl

theorem compile_annot (t : Steps) :
    ∀ (cur : Span) (stk : List Span) (ip : Nat) (es : List Entry) (ins : List (Nat × Option Span)),
      (compile t { ip := ip, stack := cur :: stk, entries := es, instrs := ins }).entries
          = es ++ (annot t cur ip).1 ∧
      (compile t { ip := ip, stack := cur :: stk, entries := es, instrs := ins }).ip
          = (annot t cur ip).2 := by
  induction t with
  | done => intros; simp [compile, annot]
  | op n rest ih =>
    intro cur stk ip es ins
    have := ih cur stk (ip + n) (es ++ [(ip, cur)]) (ins ++ [(ip, some cur)])
    simp only [compile, CState.span, List.head?_cons, annot_op]
    rw [this.1, this.2]
    simp
  | opNoSpan n rest ih =>
    intro cur stk ip es ins
    have := ih cur stk (ip + n) es (ins ++ [(ip, none)])
    simp only [compile, annot_opNoSpan]
    exact this
  | node sp body rest ihb ihr =>
    intro cur stk ip es ins
    have hb := ihb sp (cur :: stk) ip es ins
    have hst := compile_stack body { ip := ip, stack := sp :: cur :: stk, entries := es, instrs := ins }
    simp only at hst
    simp only [compile, annot_node]
    rw [hst, List.tail_cons]
    have hr := ihr cur stk
      (compile body { ip := ip, stack := sp :: cur :: stk, entries := es, instrs := ins }).ip
      (compile body { ip := ip, stack := sp :: cur :: stk, entries := es, instrs := ins }).entries
      (compile body { ip := ip, stack := sp :: cur :: stk, entries := es, instrs := ins }).instrs
    rw [hr.1, hr.2, hb.1, hb.2]
    simp

theorem annot_ip_le (t : Steps) : ∀ (cur : Span) (ip : Nat), ip ≤ (annot t cur ip).2 := by
  induction t with
  | done => intros; simp [annot]
  | op n rest ih =>
    intro cur ip
    have := ih cur (ip + n)
    rw [annot_op]; simp only; omega
  | opNoSpan n rest ih =>
    intro cur ip
    have := ih cur (ip + n)
    rw [annot_opNoSpan]; omega
  | node sp body rest ihb ihr =>
    intro cur ip
    have h1 := ihb sp ip
    have h2 := ihr cur (annot body sp ip).2
    rw [annot_node]; simp only; omega

theorem annot_bounds (t : Steps) (h : t.sizesPos = true) :
    ∀ (cur : Span) (ip : Nat), ∀ e ∈ (annot t cur ip).1, ip ≤ e.1 ∧ e.1 < (annot t cur ip).2 := by
  induction t with
  | done => intro cur ip e he; simp [annot] at he
  | op n rest ih =>
    intro cur ip e he
    simp only [Steps.sizesPos, Bool.and_eq_true, decide_eq_true_eq] at h
    rw [annot_op] at he ⊢
    simp only at he ⊢
    have hle := annot_ip_le rest cur (ip + n)
    rcases List.mem_cons.mp he with he | he
    · subst he; simp only; omega
    · have := ih h.2 cur (ip + n) e he
      omega
  | opNoSpan n rest ih =>
    intro cur ip e he
    simp only [Steps.sizesPos, Bool.and_eq_true, decide_eq_true_eq] at h
    rw [annot_opNoSpan] at he ⊢
    have := ih h.2 cur (ip + n) e he
    omega
  | node sp body rest ihb ihr =>
    intro cur ip e he
    simp only [Steps.sizesPos, Bool.and_eq_true] at h
    rw [annot_node] at he ⊢
    simp only at he ⊢
    have h1 := annot_ip_le body sp ip
    have h2 := annot_ip_le rest cur (annot body sp ip).2
    rcases List.mem_append.mp he with he | he
    · have := ihb h.1 sp ip e he
      omega
    · have := ihr h.2 cur _ e he
      omega

theorem annot_strict (t : Steps) (h : t.sizesPos = true) :
    ∀ (cur : Span) (ip : Nat), (annot t cur ip).1.Pairwise (fun a b => a.1 < b.1) := by
  induction t with
  | done => intro cur ip; simp [annot]
  | op n rest ih =>
    intro cur ip
    have hp := h
    simp only [Steps.sizesPos, Bool.and_eq_true, decide_eq_true_eq] at hp
    rw [annot_op]
    simp only
    rw [List.pairwise_cons]
    refine ⟨?_, ih hp.2 cur (ip + n)⟩
    intro e he
    have := annot_bounds rest hp.2 cur (ip + n) e he
    simp only
    omega
  | opNoSpan n rest ih =>
    intro cur ip
    simp only [Steps.sizesPos, Bool.and_eq_true, decide_eq_true_eq] at h
    rw [annot_opNoSpan]
    exact ih h.2 cur (ip + n)
  | node sp body rest ihb ihr =>
    intro cur ip
    simp only [Steps.sizesPos, Bool.and_eq_true] at h
    rw [annot_node]
    simp only
    rw [List.pairwise_append]
    refine ⟨ihb h.1 sp ip, ihr h.2 cur _, ?_⟩
    intro a ha b hb
    have h1 := annot_bounds body h.1 sp ip a ha
    have h2 := annot_bounds rest h.2 cur _ b hb
    omega

theorem lookup_pushAll (es : List Entry) (h : es.Pairwise (fun a b => a.1 ≤ b.1)) (q : Nat) :
    lookup (pushAll es) q = lookup es q := by
  have hp : pushAll es = compressFrom none es := by
    unfold pushAll
    rw [foldl_push]
    rfl
  rw [hp]
  exact lookupGo_compressFrom es q none none h (fun _ hn => by cases hn)

theorem instr_span (root : Span) (t : Steps) (h : t.sizesPos = true) :
    ∀ e ∈ (annot t root 0).1, lookup (debugInfoOf root t) e.1 = some e.2 := by
  intro e he
  have hent : (compile t { stack := [root] }).entries = (annot t root 0).1 := by
    have := (compile_annot t root [] 0 [] []).1
    simpa using this
  unfold debugInfoOf
  rw [hent]
  have hstrict := annot_strict t h root 0
  have hsorted : (annot t root 0).1.Pairwise (fun a b => a.1 ≤ b.1) :=
    hstrict.imp (fun hab => Nat.le_of_lt hab)
  rw [lookup_pushAll _ hsorted]
  exact lookupGo_hit _ e.1 e.2 none hstrict he

/-! ## 4. unwinding -/

theorem unwindGo_step (allow : Bool) (f g : Frame) (rest : List Frame) (tr : List IFrame)
    (hc : (f.hasCatch && allow) = false) (hb : f.barrier = false) :
    unwindGo allow (f :: g :: rest) tr
      = unwindGo allow (g :: rest) (tr ++ [⟨g.chunk, g.retIp⟩]) := by
  simp only [unwindGo, hc, hb, Bool.false_eq_true, ↓reduceIte]

theorem unwind_frames (allow : Bool) (fs : List Frame) (b : Frame) (below : List Frame)
    (tr : List IFrame)
    (hfs : ∀ f ∈ fs, f.barrier = false ∧ (f.hasCatch && allow) = false)
    (hb : b.barrier = true ∧ (b.hasCatch && allow) = false) :
    unwindGo allow (fs ++ b :: below) tr
      = .uncaught (tr ++ ((fs ++ [b]).drop 1).map (fun g => (⟨g.chunk, g.retIp⟩ : IFrame))) := by
  induction fs generalizing tr with
  | nil =>
    cases below with
    | nil => simp [unwindGo, hb.2]
    | cons g rest => simp [unwindGo, hb.1, hb.2]
  | cons f fs' ih =>
    have hf := hfs f (by simp)
    have hfs' : ∀ x ∈ fs', x.barrier = false ∧ (x.hasCatch && allow) = false :=
      fun x hx => hfs x (List.mem_cons_of_mem _ hx)
    cases fs' with
    | nil =>
      show unwindGo allow (f :: b :: below) tr = _
      rw [unwindGo_step _ _ _ _ _ hf.2 hf.1]
      have := ih (tr ++ [⟨b.chunk, b.retIp⟩]) hfs'
      simpa using this
    | cons g fs'' =>
      show unwindGo allow (f :: g :: (fs'' ++ b :: below)) tr = _
      rw [unwindGo_step _ _ _ _ _ hf.2 hf.1]
      have := ih (tr ++ [⟨g.chunk, g.retIp⟩]) hfs'
      simpa using this

/-- does some catch entry stop the unwinding (with catching allowed)? -/
def catches : List Frame → Bool
  | [] => false
  | f :: rest => f.hasCatch || (!f.barrier && catches rest)

theorem catches_cons (f : Frame) (rest : List Frame) :
    catches (f :: rest) = (f.hasCatch || (!f.barrier && catches rest)) := rfl

theorem unwindGo_caught (st : List Frame) (tr : List IFrame) :
    unwindGo true st tr = .caught ↔ catches st = true := by
  induction st generalizing tr with
  | nil => simp [unwindGo, catches]
  | cons f rest ih =>
    cases rest with
    | nil => cases hc : f.hasCatch <;> simp [unwindGo, catches, hc]
    | cons g r =>
      rw [catches_cons]
      cases hc : f.hasCatch <;> cases hb : f.barrier <;> simp [unwindGo, hc, hb, ih]

theorem catches_no_barrier (fs : List Frame) (b : Frame) (h : ∀ f ∈ fs, f.barrier = false) :
    catches (fs ++ [b]) = (fs ++ [b]).any (·.hasCatch) := by
  induction fs with
  | nil => simp [catches]
  | cons f fs' ih =>
    have hf := h f (by simp)
    have := ih (fun x hx => h x (List.mem_cons_of_mem _ hx))
    simp only [List.cons_append, catches_cons, hf, this, List.any_cons]
    simp

/-! ### the stack a call chain builds -/

/-- the frames below the final top frame, bottom first -/
def mids : Frame → List Call → List Frame
  | _, [] => []
  | top, c :: rest =>
    { top with retIp := c.ip, hasCatch := c.inTry } :: mids { chunk := c.callee } rest

def finalTop : Frame → List Call → Frame
  | top, [] => top
  | _, c :: rest => finalTop { chunk := c.callee } rest

theorem callAll_stack (calls : List Call) :
    ∀ (top : Frame) (below : List Frame) (ch ip : Nat),
      ((⟨top :: below, ch, ip⟩ : VM).callAll calls).stack
        = finalTop top calls :: ((mids top calls).reverse ++ below) := by
  induction calls with
  | nil => intros; simp [VM.callAll, mids, finalTop]
  | cons c rest ih =>
    intro top below ch ip
    simp only [VM.callAll, VM.call, mids, finalTop]
    rw [ih]
    simp

theorem call_chunk (vm : VM) (c : Call) : (vm.call c).chunk = c.callee := by
  unfold VM.call
  split <;> rfl

theorem callAll_chunk (calls : List Call) :
    ∀ vm : VM, (vm.callAll calls).chunk = lastChunk vm.chunk calls := by
  induction calls with
  | nil => intro vm; rfl
  | cons c rest ih =>
    intro vm
    simp only [VM.callAll, lastChunk]
    rw [ih, call_chunk]

theorem at_of_stack (vm : VM) (f : Frame) (rest : List Frame) (ip : Nat) (ft : Bool)
    (h : vm.stack = f :: rest) :
    vm.at ip ft = ⟨{ f with hasCatch := ft } :: rest, vm.chunk, ip⟩ := by
  unfold VM.at
  rw [h]

/-- the frame `KotoVm::run(0)` starts with -/
def runFrame : Frame := { chunk := 0, barrier := true }

/-- the VM after the call chain `calls` made from `run 0`, positioned at the failing instruction -/
theorem vmAt_eq (calls : List Call) (fault : Nat) (ft : Bool) :
    ((VM.run 0).callAll calls).at fault ft
      = ⟨{ finalTop runFrame calls with hasCatch := ft } :: (mids runFrame calls).reverse,
          lastChunk 0 calls, fault⟩ := by
  have hs := callAll_stack calls runFrame [] 0 0
  have hc := callAll_chunk calls (VM.run 0)
  rw [List.append_nil] at hs
  have hrun : VM.run 0 = ⟨[runFrame], 0, 0⟩ := rfl
  rw [at_of_stack _ _ _ fault ft (hrun ▸ hs), hc]
  rfl

theorem predict_eq (calls : List Call) (fault : Nat) (ft : Bool) :
    predict calls fault ft
      = unwindGo true
          ({ finalTop runFrame calls with hasCatch := ft } :: (mids runFrame calls).reverse)
          [⟨lastChunk 0 calls, fault⟩] := by
  unfold predict unwind
  rw [vmAt_eq]
  rfl

theorem mids_barrier (calls : List Call) :
    ∀ top : Frame, top.barrier = false → ∀ f ∈ mids top calls, f.barrier = false := by
  induction calls with
  | nil => intro top _ f hf; simp [mids] at hf
  | cons c rest ih =>
    intro top ht f hf
    simp only [mids, List.mem_cons] at hf
    rcases hf with hf | hf
    · subst hf; exact ht
    · exact ih _ rfl f hf

theorem finalTop_barrier (calls : List Call) :
    ∀ top : Frame, top.barrier = false → (finalTop top calls).barrier = false := by
  induction calls with
  | nil => intro top ht; exact ht
  | cons c rest ih => intro top _; exact ih _ rfl

theorem mids_hasCatch (calls : List Call) (h : ∀ c ∈ calls, c.inTry = false) :
    ∀ top : Frame, ∀ f ∈ mids top calls, f.hasCatch = false := by
  induction calls with
  | nil => intro top f hf; simp [mids] at hf
  | cons c rest ih =>
    intro top f hf
    simp only [mids, List.mem_cons] at hf
    rcases hf with hf | hf
    · subst hf; exact h c (by simp)
    · exact ih (fun x hx => h x (List.mem_cons_of_mem _ hx)) _ f hf

theorem mids_sites (calls : List Call) :
    ∀ top : Frame, (mids top calls).map (fun g => (⟨g.chunk, g.retIp⟩ : IFrame))
      = callSites top.chunk calls := by
  induction calls with
  | nil => intro top; rfl
  | cons c rest ih =>
    intro top
    simp only [mids, callSites, List.map_cons]
    rw [ih]

theorem mids_any (calls : List Call) :
    ∀ top : Frame, (mids top calls).any (·.hasCatch) = calls.any (·.inTry) := by
  induction calls with
  | nil => intro top; rfl
  | cons c rest ih =>
    intro top
    simp only [mids, List.any_cons]
    rw [ih]

/-- accumulator-general form: unwinding the stack of a `try`-free call chain from any trace so far
appends the call sites, innermost first -/
theorem unwind_calls (calls : List Call) (tr : List IFrame)
    (h : ∀ c ∈ calls, c.inTry = false) :
    unwindGo true
        ({ finalTop runFrame calls with hasCatch := false } :: (mids runFrame calls).reverse) tr
      = .uncaught (tr ++ (callSites 0 calls).reverse) := by
  cases calls with
  | nil => simp [mids, finalTop, unwindGo, callSites, runFrame]
  | cons c rest =>
    have hc : c.inTry = false := h c (by simp)
    have hrest : ∀ x ∈ rest, x.inTry = false := fun x hx => h x (List.mem_cons_of_mem _ hx)
    simp only [mids, finalTop, List.reverse_cons]
    rw [← List.cons_append]
    have key := unwind_frames true
      ({ finalTop { chunk := c.callee } rest with hasCatch := false }
        :: (mids { chunk := c.callee } rest).reverse)
      { runFrame with retIp := c.ip, hasCatch := c.inTry } [] tr
      (by
        intro f hf
        rcases List.mem_cons.mp hf with hf | hf
        · subst hf
          exact ⟨finalTop_barrier rest _ rfl, rfl⟩
        · have hf' := List.mem_reverse.mp hf
          exact ⟨mids_barrier rest _ rfl f hf', by rw [mids_hasCatch rest hrest _ f hf']; rfl⟩)
      (by rw [hc]; exact ⟨rfl, rfl⟩)
    rw [key]
    simp only [List.cons_append, List.drop_one, List.tail_cons, List.map_append, List.map_reverse,
      mids_sites, List.map_cons, List.map_nil, callSites, List.reverse_cons]
    rfl

theorem trace_order (calls : List Call) (fault : Nat) (h : ∀ c ∈ calls, c.inTry = false) :
    predict calls fault false
      = .uncaught (⟨lastChunk 0 calls, fault⟩ :: (callSites 0 calls).reverse) := by
  rw [predict_eq, unwind_calls calls _ h]
  rfl

/-! ### errors that cross native re-entries -/

theorem trace_order_native (segs : List Seg) (tr : List IFrame)
    (h : ∀ s ∈ segs, s.failInTry = false ∧ ∀ c ∈ s.calls, c.inTry = false) :
    predictSegs segs tr = .uncaught (tr ++ (segs.map segFrames).flatten) := by
  induction segs generalizing tr with
  | nil => simp [predictSegs]
  | cons s rest ih =>
    have hs := h s (by simp)
    have hrest : ∀ x ∈ rest, x.failInTry = false ∧ ∀ c ∈ x.calls, c.inTry = false :=
      fun x hx => h x (List.mem_cons_of_mem _ hx)
    simp only [predictSegs]
    rw [vmAt_eq, hs.1]
    simp only [VM.instructionFrame]
    rw [unwind_calls s.calls _ hs.2]
    simp only []
    rw [ih _ hrest]
    cases ha : s.adaptorIp <;> simp [segFrames, ha]

theorem predictSegs_single (calls : List Call) (fault : Nat) (ft : Bool) :
    predictSegs [{ calls := calls, failIp := fault, failInTry := ft }] [] = predict calls fault ft := by
  simp only [predictSegs, predict, unwind, List.nil_append, List.append_nil]
  generalize unwindGo true _ _ = o
  cases o <;> rfl

theorem native_reentry_same_stack (allow : Bool) (fs gs : List Frame) (b root : Frame)
    (below : List Frame) (tr : List IFrame)
    (hfs : ∀ f ∈ fs, f.barrier = false ∧ (f.hasCatch && allow) = false)
    (hb : b.barrier = true ∧ (b.hasCatch && allow) = false)
    (hgs : ∀ f ∈ gs, f.barrier = false ∧ (f.hasCatch && allow) = false)
    (hr : root.barrier = true ∧ (root.hasCatch && allow) = false) :
    ∃ t1, unwindGo allow (fs ++ b :: (gs ++ root :: below)) tr = .uncaught t1 ∧
      t1 = tr ++ ((fs ++ [b]).drop 1).map (fun g => (⟨g.chunk, g.retIp⟩ : IFrame)) ∧
      (match gs ++ [root] with
        | [] => True
        | g :: rest =>
          unwindGo allow (g :: (rest ++ below)) (t1 ++ [⟨g.chunk, g.retIp⟩])
            = .uncaught (tr ++ ((fs ++ b :: (gs ++ [root])).drop 1).map
                (fun g => (⟨g.chunk, g.retIp⟩ : IFrame)))) ∧
      unwindGo allow (fs ++ { b with barrier := false } :: (gs ++ root :: below)) tr
        = .uncaught (tr ++ ((fs ++ b :: (gs ++ [root])).drop 1).map
            (fun g => (⟨g.chunk, g.retIp⟩ : IFrame))) := by
  refine ⟨_, unwind_frames allow fs b _ tr hfs hb, rfl, ?_, ?_⟩
  · cases gs with
    | nil =>
      show unwindGo allow (root :: ([] ++ below)) _ = _
      have := unwind_frames allow [] root below
        ((tr ++ ((fs ++ [b]).drop 1).map (fun g => (⟨g.chunk, g.retIp⟩ : IFrame)))
          ++ [⟨root.chunk, root.retIp⟩]) (by simp) hr
      rw [List.nil_append] at this ⊢
      rw [this]
      cases fs <;> simp
    | cons g gs' =>
      show unwindGo allow (g :: ((gs' ++ [root]) ++ below)) _ = _
      have := unwind_frames allow (g :: gs') root below
        ((tr ++ ((fs ++ [b]).drop 1).map (fun g => (⟨g.chunk, g.retIp⟩ : IFrame)))
          ++ [⟨g.chunk, g.retIp⟩]) hgs hr
      rw [List.append_assoc]
      rw [List.cons_append] at this
      rw [List.singleton_append, this]
      cases fs <;> simp
  · have := unwind_frames allow (fs ++ { b with barrier := false } :: gs) root below tr
      (by
        intro f hf
        rcases List.mem_append.mp hf with hf | hf
        · exact hfs f hf
        · rcases List.mem_cons.mp hf with hf | hf
          · subst hf; exact ⟨rfl, hb.2⟩
          · exact hgs f hf) hr
    rw [List.append_assoc, List.cons_append] at this
    rw [this]
    congr 2
    cases fs <;> simp

theorem trace_caught_iff (calls : List Call) (fault : Nat) (ft : Bool) :
    predict calls fault ft = .caught ↔ (ft = true ∨ ∃ c ∈ calls, c.inTry = true) := by
  rw [predict_eq, unwindGo_caught]
  cases calls with
  | nil => simp [mids, finalTop, catches]
  | cons c rest =>
    simp only [mids, finalTop, List.reverse_cons]
    rw [← List.cons_append, catches_no_barrier]
    · simp only [List.cons_append, List.any_cons, List.any_append, List.any_reverse, mids_any,
        List.any_nil, Bool.or_false, Bool.or_eq_true, List.any_eq_true, List.mem_cons]
      constructor
      · rintro (h | ⟨x, hx, hxt⟩ | h)
        · exact Or.inl h
        · exact Or.inr ⟨x, Or.inr hx, hxt⟩
        · exact Or.inr ⟨c, Or.inl rfl, h⟩
      · rintro (h | ⟨x, hx | hx, hxt⟩)
        · exact Or.inl h
        · subst hx; exact Or.inr (Or.inr hxt)
        · exact Or.inr (Or.inl ⟨x, hx, hxt⟩)
    · intro f hf
      rcases List.mem_cons.mp hf with hf | hf
      · subst hf
        exact finalTop_barrier rest _ rfl
      · exact mids_barrier rest _ rfl f (List.mem_reverse.mp hf)

/-! ## 5. excerpt arithmetic -/

theorem excerpt_total (n : Nat) (sp : Span) (h : Guard n sp) : ∃ o, excerpt n sp = .ok o := by
  obtain ⟨h1, h2⟩ := h
  unfold excerpt
  simp only []
  split
  · omega
  · split
    · split
      · omega
      · split
        · omega
        · exact ⟨_, rfl⟩
    · exact ⟨_, rfl⟩

theorem map_snd_quoted (s k : Nat) :
    ((List.range k).map (fun j => (s + j + 1, s + j))).map (·.2) = List.range' s k := by
  rw [List.map_map, List.range'_eq_map_range]
  rfl

theorem excerpt_exact (n : Nat) (sp : Span) (h : Guard n sp) (he : sp.stop.line < n) :
    ∃ o, excerpt n sp = .ok o ∧
      o.quoted.map (·.2) = List.range' sp.start.line (sp.stop.line - sp.start.line + 1) ∧
      (∀ p ∈ o.quoted, p.1 = p.2 + 1) ∧
      o.header = (sp.start.line + 1, sp.start.col + 1) ∧
      (sp.start.line = sp.stop.line →
        o.underline = some (sp.start.col + 1, sp.stop.col - sp.start.col)) := by
  obtain ⟨h1, h2⟩ := h
  unfold excerpt
  simp only []
  split
  · omega
  · split
    · rename_i heq
      split
      · omega
      · split
        · omega
        · refine ⟨_, rfl, ?_, ?_, rfl, fun _ => rfl⟩
          · simp only [List.map_cons, List.map_nil]
            rw [← heq, Nat.sub_self]
            rfl
          · intro p hp
            simp only [List.mem_singleton] at hp
            subst hp
            rfl
    · rename_i hne
      refine ⟨_, rfl, ?_, ?_, rfl, fun hh => absurd hh hne⟩
      · simp only
        rw [map_snd_quoted]
        congr 1
        omega
      · intro p hp
        simp only [List.mem_map, List.mem_range] at hp
        obtain ⟨k, _, rfl⟩ := hp
        rfl

theorem excerpt_truncates (n : Nat) (sp : Span) (h : Guard n sp)
    (hm : sp.start.line < sp.stop.line) (he : n ≤ sp.stop.line) :
    ∃ o, excerpt n sp = .ok o ∧
      o.quoted.map (·.2) = List.range' sp.start.line (n - sp.start.line) := by
  obtain ⟨h1, _⟩ := h
  unfold excerpt
  simp only []
  split
  · omega
  · split
    · omega
    · refine ⟨_, rfl, ?_⟩
      simp only
      rw [map_snd_quoted]
      congr 1
      omega

theorem excerpt_panic_iff (n : Nat) (sp : Span) :
    (∃ p, excerpt n sp = .panic p) ↔
      (sp.stop.line < sp.start.line ∨
        (sp.start.line = sp.stop.line ∧ (n ≤ sp.start.line ∨ sp.stop.col < sp.start.col))) := by
  unfold excerpt
  simp only []
  split
  · rename_i h
    exact ⟨fun _ => Or.inl h, fun _ => ⟨_, rfl⟩⟩
  · rename_i h
    split
    · rename_i heq
      split
      · rename_i hn
        exact ⟨fun _ => Or.inr ⟨heq, Or.inl hn⟩, fun _ => ⟨_, rfl⟩⟩
      · rename_i hn
        split
        · rename_i hc
          exact ⟨fun _ => Or.inr ⟨heq, Or.inr hc⟩, fun _ => ⟨_, rfl⟩⟩
        · rename_i hc
          constructor
          · rintro ⟨p, hp⟩; cases hp
          · rintro (h' | ⟨_, h' | h'⟩) <;> omega
    · rename_i hne
      constructor
      · rintro ⟨p, hp⟩; cases hp
      · rintro (h' | ⟨h', _⟩) <;> omega

/-! ## 6. fixtures for the non-vacuity examples of `Props/C12.lean` -/

def spA : Span := ⟨⟨0, 0⟩, ⟨4, 1⟩⟩
def spB : Span := ⟨⟨1, 2⟩, ⟨1, 9⟩⟩
def spR : Span := ⟨⟨0, 0⟩, ⟨6, 0⟩⟩

/-- pushes in ip order, with equal neighbouring spans (dropped by `push`) and a span that comes
back after a different one (kept) -/
def exPushes : List Entry := [(0, spA), (2, spA), (5, spB), (7, spB), (9, spA)]

/-- root `spR` { node `spA` { op 2; op 3; node `spB` { op 1; opNoSpan 3 }; op 4 }; op 1 } — the
`op 4` after the child node is the one that gets the child's span when `pop_span` is missing -/
def exTree : Steps :=
  .node spA (.op 2 (.op 3 (.node spB (.op 1 (.opNoSpan 3 .done)) (.op 4 .done)))) (.op 1 .done)

/-- `f` calls `g` at ip 3, `g` calls `h` at ip 7, `h` calls `k` at ip 4 -/
def exCalls : List Call := [⟨3, 1, false⟩, ⟨7, 2, false⟩, ⟨4, 3, false⟩]

end KotoVerif.C12L
