/-
C05 `compile_wf`, certificate for the whole statement layer, part 3: every jump `flatAux` emits —
`break` and `continue` included — stays inside the stream.
-/
import KotoVerif.Lemmas.C05CWCert2

set_option linter.unusedSimpArgs false

namespace KotoVerif.Compile
open KotoVerif.Gen KotoVerif.Bytecode

/-- forward skips reach at most `p` instructions beyond the list -/
def jumpsOkLp (p : Nat) : List LFlat → Bool
  | [] => true
  | f :: rest => decide (f.skip ≤ rest.length + p) && jumpsOkLp p rest

theorem jumpsOkLp_zero (X : List LFlat) : jumpsOkLp 0 X = jumpsOkL X := by
  induction X with
  | nil => rfl
  | cons f rest ih => simp [jumpsOkLp, jumpsOkL, ih]

theorem jumpsOkLp_mono (X : List LFlat) (p p' : Nat) (h : p ≤ p') (hx : jumpsOkLp p X = true) :
    jumpsOkLp p' X = true := by
  induction X with
  | nil => rfl
  | cons f rest ih =>
    simp only [jumpsOkLp, Bool.and_eq_true, decide_eq_true_eq] at hx ⊢
    exact ⟨by omega, ih hx.2⟩

theorem jumpsOkLp_append (A B : List LFlat) (p : Nat) (hA : jumpsOkLp (B.length + p) A = true)
    (hB : jumpsOkLp p B = true) : jumpsOkLp p (A ++ B) = true := by
  induction A with
  | nil => simpa using hB
  | cons f rest ih =>
    simp only [jumpsOkLp, Bool.and_eq_true, decide_eq_true_eq] at hA
    simp only [List.cons_append, jumpsOkLp, Bool.and_eq_true, decide_eq_true_eq, List.length_append]
    exact ⟨by omega, ih hA.2⟩

/-- **every jump of `flatAux` is in range**: a forward skip reaches at most the `post` instructions
after the code (`break` goes exactly there), a backward distance at most the `pre` instructions before
it (`continue`) — for *all* loop code, with `break` / `continue` / endless loops. -/
theorem flatAux_range : ∀ (c : LCode) (pre post : Nat),
    jumpsOkLp post (flatAux c pre post) = true ∧ backOkL pre (flatAux c pre post) = true := by
  intro c
  induction c with
  | base c =>
    intro pre post
    obtain ⟨h1, h2⟩ := ofFlat_ok (flatten c) (flatten_jumpsOk c)
    simp only [flatAux]
    exact ⟨jumpsOkLp_mono _ 0 post (Nat.zero_le _) (by rw [jumpsOkLp_zero]; exact h1), h2 pre⟩
  | seq a b iha ihb =>
    intro pre post
    obtain ⟨a1, a2⟩ := iha pre (sizeL b + post)
    obtain ⟨b1, b2⟩ := ihb (pre + sizeL a) post
    simp only [flatAux]
    refine ⟨jumpsOkLp_append _ _ _ (by rw [flatAux_length]; exact a1) b1, ?_⟩
    exact backOkL_append _ _ pre a2 (by rw [flatAux_length]; exact b2)
  | ifElse r t w e iht ihe =>
    intro pre post
    cases w with
    | true =>
      obtain ⟨t1, t2⟩ := iht (pre + 1) (1 + sizeL e + post)
      obtain ⟨e1, e2⟩ := ihe (pre + 1 + sizeL t + 1) post
      simp only [flatAux]
      have hje : jumpsOkLp post (LFlat.jump (sizeL e) :: flatAux e (pre + 1 + sizeL t + 1) post) = true := by
        simp only [jumpsOkLp, Bool.and_eq_true, decide_eq_true_eq, LFlat.skip, flatAux_length]
        exact ⟨by omega, e1⟩
      refine ⟨?_, ?_⟩
      · rw [List.cons_append]
        simp only [jumpsOkLp, Bool.and_eq_true, decide_eq_true_eq, LFlat.skip, List.length_append, List.length_cons,
          flatAux_length]
        refine ⟨by omega, jumpsOkLp_append _ _ _ ?_ hje⟩
        simp only [List.length_cons, flatAux_length]
        have : sizeL e + 1 + post = 1 + sizeL e + post := by omega
        rw [this]; exact t1
      · rw [List.cons_append]
        simp only [backOkL]
        apply backOkL_append _ _ (pre + 1) t2
        simp only [backOkL, flatAux_length]
        exact e2
    | false =>
      obtain ⟨t1, t2⟩ := iht (pre + 1) (sizeL e + post)
      obtain ⟨e1, e2⟩ := ihe (pre + 1 + sizeL t) post
      simp only [flatAux]
      refine ⟨?_, ?_⟩
      · rw [List.cons_append]
        simp only [jumpsOkLp, Bool.and_eq_true, decide_eq_true_eq, LFlat.skip, List.length_append, flatAux_length]
        exact ⟨by omega, jumpsOkLp_append _ _ _ (by rw [flatAux_length]; exact t1) e1⟩
      · rw [List.cons_append]
        simp only [backOkL]
        exact backOkL_append _ _ (pre + 1) t2 (by rw [flatAux_length]; exact e2)
  | loop cond body ih =>
    intro pre post
    cases cond with
    | none =>
      obtain ⟨b1, b2⟩ := ih 0 1
      simp only [flatAux, flatHdr, hdrLen, List.nil_append, Nat.zero_add]
      refine ⟨?_, ?_⟩
      · apply jumpsOkLp_append
        · simp only [List.length_singleton]
          exact jumpsOkLp_mono _ 1 _ (by omega) b1
        · simp [jumpsOkLp, LFlat.skip]
      · apply backOkL_append _ _ pre (backOkL_mono _ 0 pre (Nat.zero_le _) b2)
        simp [backOkL, flatAux_length]
    | some hd =>
      obtain ⟨cc, r, neg⟩ := hd
      obtain ⟨b1, b2⟩ := ih ((flatten cc).length + 1) 1
      obtain ⟨c1, c2⟩ := ofFlat_ok (flatten cc) (flatten_jumpsOk cc)
      simp only [flatAux, flatHdr, hdrLen, List.append_assoc, List.cons_append, List.nil_append]
      have hjb : jumpsOkLp post (flatAux body ((flatten cc).length + 1) 1 ++
          [LFlat.jumpBack ((flatten cc).length + 1 + sizeL body + 1)]) = true := by
        apply jumpsOkLp_append
        · simp only [List.length_singleton]
          exact jumpsOkLp_mono _ 1 _ (by omega) b1
        · simp [jumpsOkLp, LFlat.skip]
      have hbb : ∀ s, (flatten cc).length + 1 ≤ s → backOkL s (flatAux body ((flatten cc).length + 1) 1 ++
          [LFlat.jumpBack ((flatten cc).length + 1 + sizeL body + 1)]) = true := by
        intro s hs
        apply backOkL_append _ _ s (backOkL_mono _ _ s hs b2)
        simp [backOkL, flatAux_length]; omega
      refine ⟨?_, ?_⟩
      · apply jumpsOkLp_append
        · exact jumpsOkLp_mono _ 0 _ (Nat.zero_le _) (by rw [jumpsOkLp_zero]; exact c1)
        · simp only [jumpsOkLp, Bool.and_eq_true, decide_eq_true_eq]
          refine ⟨?_, hjb⟩
          cases neg <;> simp [LFlat.skip, flatAux_length]
      · apply backOkL_append _ _ pre (c2 pre)
        have := hbb (pre + (List.map LFlat.ofFlat (flatten cc)).length + 1) (by simp)
        cases neg <;> simpa [backOkL] using this
  | brk => intro pre post; simp [flatAux, jumpsOkLp, backOkL, LFlat.skip]
  | cont => intro pre post; simp [flatAux, jumpsOkLp, backOkL, LFlat.skip]

theorem flattenL_range (c : LCode) : jumpsOkL (flattenL c) = true ∧ backOkL 0 (flattenL c) = true := by
  obtain ⟨h1, h2⟩ := flatAux_range c 0 0
  exact ⟨by rw [← jumpsOkLp_zero]; exact h1, h2⟩

end KotoVerif.Compile
