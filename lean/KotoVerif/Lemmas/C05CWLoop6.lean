/-
C05 `compile_wf`, statement layer, part 6: what `compileS` does to the frame and the registers of
the loop code it emits.
-/
import KotoVerif.Lemmas.C05CWLoop5
import KotoVerif.Lemmas.C05CWFits

set_option linter.unusedSimpArgs false

namespace KotoVerif.Compile
open KotoVerif.Gen KotoVerif.Bytecode

/-- every register mentioned by loop code is below `n` -/
def CBL : LCode → Nat → Prop
  | .base c, n => CB c n
  | .seq a b, n => CBL a n ∧ CBL b n
  | .ifElse r t _ e, n => r < n ∧ CBL t n ∧ CBL e n
  | .loop none body, n => CBL body n
  | .loop (some (cc, r, _)) body, n => CB cc n ∧ r < n ∧ CBL body n
  | .brk, _ => True
  | .cont, _ => True

theorem CBL.mono : ∀ (c : LCode) (n n' : Nat), CBL c n → n ≤ n' → CBL c n' := by
  intro c
  induction c with
  | base c => intro n n' h hn; exact CB.mono h hn
  | seq a b iha ihb => intro n n' h hn; exact ⟨iha _ _ h.1 hn, ihb _ _ h.2 hn⟩
  | ifElse r t w e iht ihe =>
    intro n n' h hn; exact ⟨Nat.lt_of_lt_of_le h.1 hn, iht _ _ h.2.1 hn, ihe _ _ h.2.2 hn⟩
  | loop cond body ih =>
    intro n n' h hn
    cases cond with
    | none => exact ih _ _ h hn
    | some hd =>
      obtain ⟨cc, r, neg⟩ := hd
      exact ⟨CB.mono h.1 hn, Nat.lt_of_lt_of_le h.2.1 hn, ih _ _ h.2.2 hn⟩
  | brk => intros; trivial
  | cont => intros; trivial

theorem ofFlat_regs (fs : List Flat) (n : Nat) (h : ∀ f ∈ fs, ∀ r ∈ flatRegs f, r < n) :
    ∀ f ∈ fs.map LFlat.ofFlat, ∀ r ∈ lflatRegs f, r < n := by
  intro f hf r hr
  obtain ⟨g, hg, rfl⟩ := List.mem_map.mp hf
  have : lflatRegs (LFlat.ofFlat g) = flatRegs g := by cases g <;> rfl
  rw [this] at hr
  exact h g hg r hr

theorem flatAux_regs : ∀ (c : LCode) (n : Nat), CBL c n → ∀ pre post, ∀ f ∈ flatAux c pre post,
    ∀ r ∈ lflatRegs f, r < n := by
  intro c
  induction c with
  | base c =>
    intro n h pre post
    simp only [flatAux]
    exact ofFlat_regs _ n (flatten_regs c n h)
  | seq a b iha ihb =>
    intro n h pre post f hf
    simp only [flatAux, List.mem_append] at hf
    exact hf.elim (iha n h.1 _ _ f) (ihb n h.2 _ _ f)
  | ifElse q t w e iht ihe =>
    intro n h pre post f hf r hr
    cases w with
    | true =>
      simp only [flatAux, List.mem_cons, List.mem_append] at hf
      have := h.1
      rcases hf with (rfl | hf) | rfl | hf
      · simp [lflatRegs] at hr; omega
      · exact iht n h.2.1 _ _ f hf r hr
      · simp [lflatRegs] at hr
      · exact ihe n h.2.2 _ _ f hf r hr
    | false =>
      simp only [flatAux, List.mem_cons, List.mem_append] at hf
      have := h.1
      rcases hf with (rfl | hf) | hf
      · simp [lflatRegs] at hr; omega
      · exact iht n h.2.1 _ _ f hf r hr
      · exact ihe n h.2.2 _ _ f hf r hr
  | loop cond body ih =>
    intro n h pre post f hf r hr
    cases cond with
    | none =>
      simp only [flatAux, flatHdr, List.nil_append, List.mem_append, List.mem_singleton] at hf
      rcases hf with hf | rfl
      · exact ih n h _ _ f hf r hr
      · simp [lflatRegs] at hr
    | some hd =>
      obtain ⟨cc, q, neg⟩ := hd
      simp only [flatAux, flatHdr, List.mem_append, List.mem_singleton] at hf
      rcases hf with ((hf | rfl) | hf) | rfl
      · exact ofFlat_regs _ n (flatten_regs cc n h.1) f hf r hr
      · have := h.2.1
        cases neg <;> simp [lflatRegs] at hr <;> omega
      · exact ih n h.2.2 _ _ f hf r hr
      · simp [lflatRegs] at hr
  | brk => intro n h pre post f hf r hr; simp [flatAux] at hf; subst hf; simp [lflatRegs] at hr
  | cont => intro n h pre post f hf r hr; simp [flatAux] at hf; subst hf; simp [lflatRegs] at hr

/-- statements of the fragment: no `break` / `continue`, every loop has a condition -/
def SimpleS : Stmt → Prop
  | .expr _ => True
  | .seq a b => SimpleS a ∧ SimpleS b
  | .ite _ t e => SimpleS t ∧ SimpleS e
  | .ifThen _ t => SimpleS t
  | .loop (some _) b => SimpleS b
  | .loop none _ => False
  | .brk => False
  | .cont => False

structure SFacts (F F' : Frame) : Prop where
  mono : Mono F F'
  t : T F'
  wf : WF F'
  fits : U F → U F'

theorem compileCond_facts {c : Expr} {F F2 : Frame} {cc : Code} {rc : Reg}
    (h : compileCond c F = some (cc, rc, F2)) (hw : WF F) (ht : T F) :
    SFacts F F2 ∧ CB cc (F2.tb + F2.tmax) ∧ rc < F2.tb + F2.tmax := by
  simp only [compileCond, bind, Option.bind_eq_some_iff, Prod.exists, pure, Option.some.injEq, Prod.mk.injEq] at h
  obtain ⟨cc', oc, F1, hc, r', hr, F2', hp, rfl, rfl, rfl⟩ := h
  obtain ⟨m1, t1, cb⟩ := compile_regs c .any F cc' oc F1 hc hw ht noFix_any
  have ff := compile_frame c .any F cc' oc F1 hc hw
  have hv := out_bound ff t1 noFix_any r' hr
  obtain ⟨m2, t2⟩ := popIf_T hp
  obtain ⟨p1, p2, _⟩ := popIf_spec hp
  have b := m2.bound
  exact ⟨⟨m1.trans m2, t2 t1, ff.wf.of_locals_eq p1 p2, fun hu => popIf_U hp (compile_fits c .any F cc' oc F1 hc hu)⟩,
    cb.mono b, by omega⟩

theorem compileS_facts : ∀ (s : Stmt) (inLoop : Bool) (F : Frame) (lc : LCode) (F' : Frame),
    compileS s inLoop F = some (lc, F') → WF F → T F →
    SFacts F F' ∧ CBL lc (F'.tb + F'.tmax) ∧ (SimpleS s → Simple lc) := by
  intro s
  induction s with
  | expr e =>
    intro inLoop F lc F' h hw ht
    simp only [compileS, bind, Option.bind_eq_some_iff, Prod.exists, pure, Option.some.injEq, Prod.mk.injEq] at h
    obtain ⟨c, o, F1, hc, rfl, rfl⟩ := h
    obtain ⟨m1, t1, cb⟩ := compile_regs e .none F c o F1 hc hw ht noFix_none
    have ff := compile_frame e .none F c o F1 hc hw
    exact ⟨⟨m1, t1, ff.wf, fun hu => compile_fits e .none F c o F1 hc hu⟩, cb, fun _ => trivial⟩
  | seq a b iha ihb =>
    intro inLoop F lc F' h hw ht
    simp only [compileS, bind, Option.bind_eq_some_iff, Prod.exists, pure, Option.some.injEq, Prod.mk.injEq] at h
    obtain ⟨ca, F1, ha, cb, F2, hb, rfl, rfl⟩ := h
    obtain ⟨fa, ra, sa⟩ := iha inLoop F ca F1 ha hw ht
    obtain ⟨fb, rb, sb⟩ := ihb inLoop F1 cb F2 hb fa.wf fa.t
    exact ⟨⟨fa.mono.trans fb.mono, fb.t, fb.wf, fun hu => fb.fits (fa.fits hu)⟩,
      ⟨CBL.mono _ _ _ ra fb.mono.bound, rb⟩, fun hs => ⟨sa hs.1, sb hs.2⟩⟩
  | ite c t e iht ihe =>
    intro inLoop F lc F' h hw ht
    simp only [compileS, bind, Option.bind_eq_some_iff, Prod.exists, pure, Option.some.injEq, Prod.mk.injEq] at h
    obtain ⟨cc, rc, F1, hc, ct, F2, ht', ce, F3, he, rfl, rfl⟩ := h
    obtain ⟨fc, cbc, hrc⟩ := compileCond_facts hc hw ht
    obtain ⟨ft, rt, st⟩ := iht inLoop F1 ct F2 ht' fc.wf fc.t
    obtain ⟨fe, re, se⟩ := ihe inLoop F2 ce F3 he ft.wf ft.t
    have b12 := ft.mono.bound; have b23 := fe.mono.bound
    refine ⟨⟨fc.mono.trans (ft.mono.trans fe.mono), fe.t, fe.wf, fun hu => fe.fits (ft.fits (fc.fits hu))⟩, ?_, ?_⟩
    · exact ⟨cbc.mono (by omega), by omega, CBL.mono _ _ _ rt b23, re⟩
    · exact fun hs => ⟨trivial, st hs.1, se hs.2⟩
  | ifThen c t iht =>
    intro inLoop F lc F' h hw ht
    simp only [compileS, bind, Option.bind_eq_some_iff, Prod.exists, pure, Option.some.injEq, Prod.mk.injEq] at h
    obtain ⟨cc, rc, F1, hc, ct, F2, ht', rfl, rfl⟩ := h
    obtain ⟨fc, cbc, hrc⟩ := compileCond_facts hc hw ht
    obtain ⟨ft, rt, st⟩ := iht inLoop F1 ct F2 ht' fc.wf fc.t
    have b12 := ft.mono.bound
    refine ⟨⟨fc.mono.trans ft.mono, ft.t, ft.wf, fun hu => ft.fits (fc.fits hu)⟩, ?_, ?_⟩
    · exact ⟨cbc.mono (by omega), by omega, rt, by simp [CBL]⟩
    · exact fun hs => ⟨trivial, st hs, trivial⟩
  | loop cond b ih =>
    intro inLoop F lc F' h hw ht
    simp only [compileS, bind, Option.bind_eq_some_iff, Prod.exists, pure, Option.some.injEq, Prod.mk.injEq] at h
    obtain ⟨hdr, F1, hh, cb, F2, hb, rfl, rfl⟩ := h
    cases cond with
    | none =>
      simp [compileHdr] at hh
      obtain ⟨rfl, rfl⟩ := hh
      obtain ⟨fb, rb, sb⟩ := ih true F cb F2 hb hw ht
      exact ⟨fb, rb, fun hs => absurd hs (by simp [SimpleS])⟩
    | some cn =>
      obtain ⟨c, neg⟩ := cn
      simp only [compileHdr, bind, Option.bind_eq_some_iff, Prod.exists, pure, Option.some.injEq, Prod.mk.injEq] at hh
      obtain ⟨cc, rc, F1', hc, rfl, rfl⟩ := hh
      obtain ⟨fc, cbc, hrc⟩ := compileCond_facts hc hw ht
      obtain ⟨fb, rb, sb⟩ := ih true F1' cb F2 hb fc.wf fc.t
      have b12 := fb.mono.bound
      refine ⟨⟨fc.mono.trans fb.mono, fb.t, fb.wf, fun hu => fb.fits (fc.fits hu)⟩, ?_, ?_⟩
      · exact ⟨cbc.mono b12, by omega, rb⟩
      · exact fun hs => sb hs
  | brk =>
    intro inLoop F lc F' h hw ht
    simp only [compileS] at h
    split at h
    · cases h; exact ⟨⟨Mono.refl _, ht, hw, id⟩, trivial, fun hs => absurd hs (by simp [SimpleS])⟩
    · cases h
  | cont =>
    intro inLoop F lc F' h hw ht
    simp only [compileS] at h
    split at h
    · cases h; exact ⟨⟨Mono.refl _, ht, hw, id⟩, trivial, fun hs => absurd hs (by simp [SimpleS])⟩
    · cases h

end KotoVerif.Compile
