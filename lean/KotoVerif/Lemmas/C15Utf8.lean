/-
Helper lemmas for C15: the UTF-8 validator, character boundaries, and how well-formedness behaves
under concatenation and under cutting at boundaries. Core Lean only.
-/
import KotoVerif.Model.Utf8

namespace KotoVerif.Utf8

theorem u8run_append (st : U8) (a b : Bytes) :
    u8run st (a ++ b) = (u8run st a).bind (fun st' => u8run st' b) := by
  induction a generalizing st with
  | nil => simp [u8run]
  | cons x xs ih =>
    simp only [List.cons_append, u8run]
    cases h : u8step st x with
    | none => simp
    | some st' => simpa using ih st'

theorem validUtf8_iff (bs : Bytes) : validUtf8 bs = true ↔ u8run .start bs = some .start := by
  simp [validUtf8]

theorem valid_nil : validUtf8 [] = true := by decide

/-- concatenating well-formed strings gives a well-formed string -/
theorem valid_append {a b : Bytes} (ha : validUtf8 a = true) (hb : validUtf8 b = true) :
    validUtf8 (a ++ b) = true := by
  rw [validUtf8_iff] at *
  rw [u8run_append, ha]
  simpa using hb

/-- a well-formed string with a well-formed prefix has a well-formed rest -/
theorem valid_of_append_left {a b : Bytes} (hab : validUtf8 (a ++ b) = true) (ha : validUtf8 a = true) :
    validUtf8 b = true := by
  rw [validUtf8_iff] at *
  rw [u8run_append, ha] at hab
  simpa using hab

theorem valid_flatten {xs : List Bytes} (h : ∀ x ∈ xs, validUtf8 x = true) : validUtf8 xs.flatten = true := by
  induction xs with
  | nil => exact valid_nil
  | cons x xs ih =>
    simp only [List.flatten_cons]
    exact valid_append (h x (by simp)) (ih (fun y hy => h y (by simp [hy])))

theorem valid_replicate {s : Bytes} (n : Nat) (h : validUtf8 s = true) :
    validUtf8 (List.replicate n s).flatten = true :=
  valid_flatten (fun x hx => by rw [(List.mem_replicate.mp hx).2]; exact h)

/-- in the start state a continuation byte is rejected -/
theorem start_rejects_cont {b : Nat} (h : isCont b = true) : u8step .start b = none := by
  simp only [isCont, Bool.and_eq_true, decide_eq_true_eq] at h
  simp only [u8step]
  repeat' split
  all_goals first | rfl | omega

/-- in a `need` state only continuation bytes are accepted -/
theorem need_accepts_only_cont {k lo hi b : Nat} {st : U8} (h : u8step (.need k lo hi) b = some st) :
    isCont b = true := by
  simp only [u8step] at h
  split at h
  · rename_i hc; exact hc.1
  · cases h

/-- if the run continues with a non-continuation byte, the validator was in its start state -/
theorem run_cons_noncont {st st' : U8} {b : Nat} {r : Bytes} (h : u8run st (b :: r) = some st')
    (hb : isCont b = false) : st = .start := by
  cases st with
  | start => rfl
  | need k lo hi =>
    simp only [u8run] at h
    cases hs : u8step (.need k lo hi) b with
    | none => simp [hs] at h
    | some s2 => have := need_accepts_only_cont hs; simp [hb] at this

theorem take_append_drop_eq (s : Bytes) (i : Nat) : s = s.take i ++ s.drop i := (List.take_append_drop i s).symm

/-- **cutting a well-formed string at a character boundary gives two well-formed strings** -/
theorem valid_split {s : Bytes} {i : Nat} (hv : validUtf8 s = true) (hb : isBoundary s i = true) :
    validUtf8 (s.take i) = true ∧ validUtf8 (s.drop i) = true := by
  by_cases hi0 : i = 0
  · subst hi0; simp [hv, valid_nil]
  simp only [isBoundary, hi0, if_false] at hb
  cases hg : s[i]? with
  | none =>
    -- i ≥ length: take = s, drop = []
    have hlen : s.length ≤ i := by
      rcases Nat.lt_or_ge i s.length with h | h
      · have := List.getElem?_eq_getElem h; simp [this] at hg
      · exact h
    rw [List.take_of_length_le hlen, List.drop_of_length_le hlen]
    exact ⟨hv, valid_nil⟩
  | some b =>
    rw [hg] at hb
    have hnc : isCont b = false := by simpa using hb
    have hlt : i < s.length := by
      rcases Nat.lt_or_ge i s.length with h | h
      · exact h
      · have := List.getElem?_eq_none h; simp [this] at hg
    have hdrop : s.drop i = b :: s.drop (i + 1) := by
      have hb' : s[i] = b := by
        have := List.getElem?_eq_getElem hlt; rw [this] at hg; exact Option.some.inj hg
      rw [← hb']; exact List.drop_eq_getElem_cons hlt
    rw [validUtf8_iff] at hv
    rw [take_append_drop_eq s i, u8run_append] at hv
    cases hr : u8run .start (s.take i) with
    | none => simp [hr] at hv
    | some st =>
      rw [hr] at hv
      simp only [Option.bind_some] at hv
      rw [hdrop] at hv
      have hst := run_cons_noncont hv hnc
      subst hst
      refine ⟨?_, ?_⟩
      · rw [validUtf8_iff]; exact hr
      · rw [validUtf8_iff, hdrop]; exact hv

theorem isBoundary_zero (s : Bytes) : isBoundary s 0 = true := by simp [isBoundary]

theorem isBoundary_length (s : Bytes) : isBoundary s s.length = true := by
  simp only [isBoundary]
  split
  · rfl
  · simp

theorem isBoundary_le_length {s : Bytes} {i : Nat} (h : isBoundary s i = true) : i ≤ s.length := by
  by_cases hi0 : i = 0
  · omega
  simp only [isBoundary, hi0, if_false] at h
  cases hg : s[i]? with
  | none => rw [hg] at h; simp at h; omega
  | some b =>
    rcases Nat.lt_or_ge i s.length with h' | h'
    · omega
    · have := List.getElem?_eq_none h'; simp [this] at hg

/-- boundaries of a suffix are boundaries of the whole string -/
theorem isBoundary_drop {s : Bytes} {a i : Nat} (ha : isBoundary s a = true) :
    isBoundary (s.drop a) i = isBoundary s (a + i) ∨ i = 0 := by
  by_cases hi0 : i = 0
  · right; exact hi0
  left
  have hale := isBoundary_le_length ha
  have : a + i ≠ 0 := by omega
  simp only [isBoundary, hi0, this, if_false, List.getElem?_drop, List.length_drop]
  cases s[a + i]? with
  | none => rw [Bool.eq_iff_iff]; simp; omega
  | some b => rfl

/-- a sub-string cut at two character boundaries of a well-formed string is well-formed -/
theorem valid_slice {s : Bytes} {a b : Nat} (hv : validUtf8 s = true) (hab : a ≤ b)
    (ha : isBoundary s a = true) (hb : isBoundary s b = true) :
    validUtf8 ((s.drop a).take (b - a)) = true := by
  have h1 := (valid_split hv ha).2
  have hb' : isBoundary (s.drop a) (b - a) = true := by
    rcases isBoundary_drop (i := b - a) ha with h | h
    · rw [h]; have : a + (b - a) = b := by omega
      rw [this]; exact hb
    · rw [h]; exact isBoundary_zero _
  exact (valid_split h1 hb').1

/-- after a well-formed prefix of a well-formed string comes a character boundary -/
theorem boundary_after_valid_prefix {a b : Bytes} (hab : validUtf8 (a ++ b) = true) (ha : validUtf8 a = true) :
    isBoundary (a ++ b) a.length = true := by
  cases b with
  | nil => simpa using isBoundary_length a
  | cons x r =>
    by_cases h0 : a.length = 0
    · rw [h0]; exact isBoundary_zero _
    have hb := valid_of_append_left hab ha
    simp only [isBoundary, h0, if_false]
    have : (a ++ x :: r)[a.length]? = some x := by simp
    rw [this]
    -- x is accepted in the start state, so it is not a continuation byte
    cases hc : isCont x with
    | false => simp [hc]
    | true =>
      rw [validUtf8_iff] at hb
      simp [u8run, start_rejects_cont hc] at hb

end KotoVerif.Utf8
