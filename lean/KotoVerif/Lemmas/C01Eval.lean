/-
Helper lemmas about `Model/CoreEval.lean` used by `Props/C01.lean`.
-/
import KotoVerif.Model.CoreEval

namespace KotoVerif.C01
open KotoVerif KotoVerif.Core

/-- one-step unfoldings of the evaluator (definitional) -/
theorem eval_and (F : FloatOps) (n : Nat) (a b : Expr) (s : St) :
    eval F (n + 1) (.and a b) s
      = seq (eval F n a s) fun va s => if va.truthy then eval F n b s else (.ok va, s) := by
  simp [eval]

theorem eval_or (F : FloatOps) (n : Nat) (a b : Expr) (s : St) :
    eval F (n + 1) (.or a b) s
      = seq (eval F n a s) fun va s => if va.truthy then (.ok va, s) else eval F n b s := by
  simp [eval]

end KotoVerif.C01
