/-
Helper lemmas about `Model/CoreEval.lean` used by `Props/C01.lean`.
-/
import KotoVerif.Model.CoreEval
import KotoVerif.Model.NumOps

namespace KotoVerif.C01
open KotoVerif KotoVerif.Core

/-- a `FloatOps` instance for kernel-evaluated examples (theorems never depend on it) -/
def stubFloatOps : FloatOps :=
  { add := fun a _ => a, sub := fun a _ => a, mul := fun a _ => a, div := fun a _ => a,
    rem := fun a _ => a, pow := fun a _ => a, neg := id, lt := fun _ _ => false,
    le := fun _ _ => false, eq := fun _ _ => false, ofInt := fun n => n.toUInt64,
    toInt := fun b => b.toInt64, isNaN := fun _ => false }

/-- one-step unfoldings of the evaluator (definitional) -/
theorem eval_and (F : FloatOps) (n : Nat) (a b : Expr) (s : St) :
    eval F (n + 1) (.and a b) s
      = seq (eval F n a s) fun va s => if va.truthy then eval F n b s else (.ok va, s) := by
  simp [eval]

theorem eval_or (F : FloatOps) (n : Nat) (a b : Expr) (s : St) :
    eval F (n + 1) (.or a b) s
      = seq (eval F n a s) fun va s => if va.truthy then (.ok va, s) else eval F n b s := by
  simp [eval]

theorem eval_ifThen (F : FloatOps) (n : Nat) (c t : Expr) (s : St) :
    eval F (n + 1) (.ifThen c t) s
      = seq (eval F n c s) fun vc s => if vc.truthy then eval F n t s else (.ok .null, s) := by
  simp [eval]

theorem eval_switch (F : FloatOps) (n : Nat) (arms : Arms) (s : St) :
    eval F (n + 1) (.switch arms) s = evalArms F n arms s := by
  simp [eval]

theorem evalArms_nil (F : FloatOps) (n : Nat) (s : St) :
    evalArms F (n + 1) .nil s = (.ok .null, s) := by
  simp [evalArms]

theorem evalArms_cons (F : FloatOps) (n : Nat) (c e : Expr) (rest : Arms) (s : St) :
    evalArms F (n + 1) (.cons c e rest) s
      = seq (eval F n c s) fun vc s => if vc.truthy then eval F n e s else evalArms F n rest s := by
  simp [evalArms]

theorem eval_while (F : FloatOps) (n : Nat) (c b : Expr) (s : St) :
    eval F (n + 1) (.while c b) s = evalLoop F n (some (c, false)) b .null s := by
  simp [eval]

theorem eval_until (F : FloatOps) (n : Nat) (c b : Expr) (s : St) :
    eval F (n + 1) (.until c b) s = evalLoop F n (some (c, true)) b .null s := by
  simp [eval]

theorem eval_loop (F : FloatOps) (n : Nat) (b : Expr) (s : St) :
    eval F (n + 1) (.loop b) s = evalLoop F n none b .null s := by
  simp [eval]

theorem evalLoop_cond (F : FloatOps) (n : Nat) (c : Expr) (neg : Bool) (b : Expr) (acc : Val) (s : St) :
    evalLoop F (n + 1) (some (c, neg)) b acc s
      = seq (eval F n c s) fun vc s =>
          if vc.truthy != neg then
            loopStep (eval F n b s) fun v s => evalLoop F n (some (c, neg)) b v s
          else (.ok acc, s) := by
  simp [evalLoop]

theorem evalLoop_none (F : FloatOps) (n : Nat) (b : Expr) (acc : Val) (s : St) :
    evalLoop F (n + 1) none b acc s
      = loopStep (eval F n b s) fun v s => evalLoop F n none b v s := by
  simp [evalLoop]

theorem eval_for (F : FloatOps) (n x : Nat) (it b : Expr) (s s₁ : St) (vi : Val) (items : List Val)
    (hi : eval F n it s = (.ok vi, s₁)) (hitems : iterItems vi = .ok items) :
    eval F (n + 1) (.for x it b) s = evalFor F n x items b .null s₁ := by
  rw [eval]; simp only [hi, seq, hitems]

theorem evalFor_nil (F : FloatOps) (n x : Nat) (b : Expr) (acc : Val) (s : St) :
    evalFor F (n + 1) x [] b acc s = (.ok acc, s.set x .null) := by
  simp [evalFor]

theorem eval_assign (F : FloatOps) (n x : Nat) (e : Expr) (s : St) :
    eval F (n + 1) (.assign x e) s = seq (eval F n e s) fun v s => (.ok v, s.set x v) := by
  simp [eval]

theorem eval_opAssign (F : FloatOps) (n x : Nat) (op : ArithOp) (e : Expr) (s s₁ : St) (v₀ v₁ : Val)
    (hx : lookup x s.env = some v₀) (he : eval F n e s = (.ok v₁, s₁)) :
    eval F (n + 1) (.opAssign op x e) s
      = (match opAssignV F op v₀ v₁ with
         | .ok r => (.ok r, s₁.set x r)
         | .error e => (.err e, s₁)) := by
  rw [eval]; simp only [hx, he, seq]; cases opAssignV F op v₀ v₁ <;> rfl

theorem eval_pos {F : FloatOps} {n : Nat} {e : Expr} {s s₁ : St} {v : Val}
    (h : eval F n e s = (.ok v, s₁)) : ∃ k, n = k + 1 := by
  cases n with
  | zero => simp [eval] at h
  | succ k => exact ⟨k, rfl⟩


/-! ### more fuel never changes a finished result -/

/-- `r` is unfinished (out of fuel) or equals `r'` -/
def Upto {α : Type} (r r' : Res α × St) : Prop := (∃ s, r = (.nofuel, s)) ∨ r = r'

theorem upto_refl {α} (r : Res α × St) : Upto r r := Or.inr rfl
theorem upto_nofuel {α} (s : St) (r' : Res α × St) : Upto (.nofuel, s) r' := Or.inl ⟨s, rfl⟩

theorem upto_seq {α β} {r r' : Res α × St} {k k' : α → St → Res β × St}
    (h : Upto r r') (hk : ∀ v s, Upto (k v s) (k' v s)) : Upto (seq r k) (seq r' k') := by
  rcases h with ⟨s, rfl⟩ | rfl
  · exact Or.inl ⟨s, rfl⟩
  · rcases r with ⟨res, s⟩
    cases res with
    | ok v => exact hk v s
    | _ => exact Or.inr rfl

theorem upto_loopStep {r r' : Res Val × St} {k k' : Val → St → Res Val × St}
    (h : Upto r r') (hk : ∀ v s, Upto (k v s) (k' v s)) : Upto (loopStep r k) (loopStep r' k') := by
  rcases h with ⟨s, rfl⟩ | rfl
  · exact Or.inl ⟨s, rfl⟩
  · rcases r with ⟨res, s⟩
    cases res with
    | ok v => exact hk v s
    | cont => exact hk .null s
    | _ => exact Or.inr rfl

theorem fuel_mono_succ (F : FloatOps) : ∀ n,
    (∀ e s, Upto (eval F n e s) (eval F (n + 1) e s))
    ∧ (∀ es s, Upto (evalList F n es s) (evalList F (n + 1) es s))
    ∧ (∀ v ch s, Upto (evalChain F n v ch s) (evalChain F (n + 1) v ch s))
    ∧ (∀ es acc s, Upto (evalEntries F n es acc s) (evalEntries F (n + 1) es acc s))
    ∧ (∀ arms s, Upto (evalArms F n arms s) (evalArms F (n + 1) arms s))
    ∧ (∀ es last s, Upto (evalBlock F n es last s) (evalBlock F (n + 1) es last s))
    ∧ (∀ c b acc s, Upto (evalLoop F n c b acc s) (evalLoop F (n + 1) c b acc s))
    ∧ (∀ x items b acc s, Upto (evalFor F n x items b acc s) (evalFor F (n + 1) x items b acc s)) := by
  intro n
  induction n with
  | zero =>
    refine ⟨?_, ?_, ?_, ?_, ?_, ?_, ?_, ?_⟩ <;> intros
    · exact Or.inl ⟨_, by rw [eval]⟩
    · exact Or.inl ⟨_, by rw [evalList]⟩
    · exact Or.inl ⟨_, by rw [evalChain]⟩
    · exact Or.inl ⟨_, by rw [evalEntries]⟩
    · exact Or.inl ⟨_, by rw [evalArms]⟩
    · exact Or.inl ⟨_, by rw [evalBlock]⟩
    · exact Or.inl ⟨_, by rw [evalLoop]⟩
    · exact Or.inl ⟨_, by rw [evalFor]⟩
  | succ n ih =>
    obtain ⟨ihE, ihL, ihC, ihM, ihA, ihB, ihW, ihF⟩ := ih
    refine ⟨?_, ?_, ?_, ?_, ?_, ?_, ?_, ?_⟩
    · intro e s
      cases e <;> simp only [eval] <;>
        repeat (first
          | exact upto_refl _
          | apply ihE | apply ihL | apply ihC | apply ihM | apply ihA | apply ihB | apply ihW | apply ihF
          | apply upto_seq | apply upto_loopStep
          | intro _ _
          | split)
    · intro es s
      cases es <;> simp only [evalList] <;>
        repeat (first
          | exact upto_refl _
          | apply ihE | apply ihL | apply ihC | apply ihM | apply ihA | apply ihB | apply ihW | apply ihF
          | apply upto_seq | apply upto_loopStep
          | intro _ _
          | split)
    · intro v ch s
      cases ch <;> simp only [evalChain] <;>
        repeat (first
          | exact upto_refl _
          | apply ihE | apply ihL | apply ihC | apply ihM | apply ihA | apply ihB | apply ihW | apply ihF
          | apply upto_seq | apply upto_loopStep
          | intro _ _
          | split)
    · intro es acc s
      cases es <;> simp only [evalEntries] <;>
        repeat (first
          | exact upto_refl _
          | apply ihE | apply ihL | apply ihC | apply ihM | apply ihA | apply ihB | apply ihW | apply ihF
          | apply upto_seq | apply upto_loopStep
          | intro _ _
          | split)
    · intro arms s
      cases arms <;> simp only [evalArms] <;>
        repeat (first
          | exact upto_refl _
          | apply ihE | apply ihL | apply ihC | apply ihM | apply ihA | apply ihB | apply ihW | apply ihF
          | apply upto_seq | apply upto_loopStep
          | intro _ _
          | split)
    · intro es last s
      cases es <;> simp only [evalBlock] <;>
        repeat (first
          | exact upto_refl _
          | apply ihE | apply ihL | apply ihC | apply ihM | apply ihA | apply ihB | apply ihW | apply ihF
          | apply upto_seq | apply upto_loopStep
          | intro _ _
          | split)
    · intro c b acc s
      simp only [evalLoop]
      repeat (first
          | exact upto_refl _
          | apply ihE | apply ihL | apply ihC | apply ihM | apply ihA | apply ihB | apply ihW | apply ihF
          | apply upto_seq | apply upto_loopStep
          | intro _ _
          | split)
    · intro x items b acc s
      simp only [evalFor]
      repeat (first
          | exact upto_refl _
          | apply ihE | apply ihL | apply ihC | apply ihM | apply ihA | apply ihB | apply ihW | apply ihF
          | apply upto_seq | apply upto_loopStep
          | intro _ _
          | split)

/-! ### the output trace is append-only -/

/-- the state of outcome `r` extends the output of `s` -/
def Ext {α : Type} (s : St) (r : Res α × St) : Prop := ∃ t, r.2.out = s.out ++ t

theorem ext_refl {α} (s : St) (x : Res α) : Ext s (x, s) := ⟨[], by simp⟩
theorem ext_set {α} (s : St) (x : Res α) (y : Nat) (v : Val) : Ext s (x, s.set y v) := ⟨[], by simp [St.set]⟩
theorem ext_push {α} (s : St) (x : Res α) (e : Ev) : Ext s (x, s.push e) := ⟨[e], by simp [St.push]⟩
theorem ext_lift {α} (s : St) (x : Except Err α) : Ext s (lift x s) := by
  cases x <;> exact ⟨[], by simp [lift]⟩

theorem ext_trans {α} {s s₁ : St} {r : Res α × St} (h₁ : ∃ t, s₁.out = s.out ++ t) (h₂ : Ext s₁ r) :
    Ext s r := by
  obtain ⟨t₁, h₁⟩ := h₁
  obtain ⟨t₂, h₂⟩ := h₂
  exact ⟨t₁ ++ t₂, by rw [h₂, h₁, List.append_assoc]⟩

theorem ext_seq {α β} {s : St} {r : Res α × St} {k : α → St → Res β × St}
    (h : Ext s r) (hk : ∀ v s', Ext s' (k v s')) : Ext s (seq r k) := by
  rcases r with ⟨res, s₁⟩
  cases res with
  | ok v => exact ext_trans h (hk v s₁)
  | _ => exact h

theorem ext_loopStep {s : St} {r : Res Val × St} {k : Val → St → Res Val × St}
    (h : Ext s r) (hk : ∀ v s', Ext s' (k v s')) : Ext s (loopStep r k) := by
  rcases r with ⟨res, s₁⟩
  cases res with
  | ok v => exact ext_trans h (hk v s₁)
  | cont => exact ext_trans h (hk .null s₁)
  | _ => exact h

theorem ext_of_set {α} {s : St} {y : Nat} {v : Val} {r : Res α × St} (h : Ext (s.set y v) r) : Ext s r := by
  obtain ⟨t, h⟩ := h
  exact ⟨t, by simpa [St.set] using h⟩

theorem out_extends (F : FloatOps) : ∀ n,
    (∀ e s, Ext s (eval F n e s))
    ∧ (∀ es s, Ext s (evalList F n es s))
    ∧ (∀ v ch s, Ext s (evalChain F n v ch s))
    ∧ (∀ es acc s, Ext s (evalEntries F n es acc s))
    ∧ (∀ arms s, Ext s (evalArms F n arms s))
    ∧ (∀ es last s, Ext s (evalBlock F n es last s))
    ∧ (∀ c b acc s, Ext s (evalLoop F n c b acc s))
    ∧ (∀ x items b acc s, Ext s (evalFor F n x items b acc s)) := by
  intro n
  induction n with
  | zero =>
    refine ⟨?_, ?_, ?_, ?_, ?_, ?_, ?_, ?_⟩ <;> intros
    · rw [eval]; exact ext_refl _ _
    · rw [evalList]; exact ext_refl _ _
    · rw [evalChain]; exact ext_refl _ _
    · rw [evalEntries]; exact ext_refl _ _
    · rw [evalArms]; exact ext_refl _ _
    · rw [evalBlock]; exact ext_refl _ _
    · rw [evalLoop]; exact ext_refl _ _
    · rw [evalFor]; exact ext_refl _ _
  | succ n ih =>
    obtain ⟨ihE, ihL, ihC, ihM, ihA, ihB, ihW, ihF⟩ := ih
    refine ⟨?_, ?_, ?_, ?_, ?_, ?_, ?_, ?_⟩
    · intro e s
      cases e <;> simp only [eval] <;>
        repeat (first
          | exact ext_refl _ _ | exact ext_set _ _ _ _ | exact ext_push _ _ _ | exact ext_lift _ _
          | apply ihE | apply ihL | apply ihC | apply ihM | apply ihA | apply ihB | apply ihW | apply ihF
          | apply ext_seq | apply ext_loopStep
          | intro _ _
          | split)
    · intro es s
      cases es <;> simp only [evalList] <;>
        repeat (first
          | exact ext_refl _ _ | apply ihE | apply ihL | apply ext_seq | intro _ _ | split)
    · intro v ch s
      cases ch <;> simp only [evalChain] <;>
        repeat (first
          | exact ext_refl _ _ | apply ihE | apply ihC | apply ext_seq | intro _ _ | split)
    · intro es acc s
      cases es <;> simp only [evalEntries] <;>
        repeat (first
          | exact ext_refl _ _ | apply ihE | apply ihM | apply ext_seq | intro _ _ | split)
    · intro arms s
      cases arms <;> simp only [evalArms] <;>
        repeat (first
          | exact ext_refl _ _ | apply ihE | apply ihA | apply ext_seq | intro _ _ | split)
    · intro es last s
      cases es <;> simp only [evalBlock] <;>
        repeat (first
          | exact ext_refl _ _ | apply ihE | apply ihB | apply ext_seq | intro _ _ | split)
    · intro c b acc s
      simp only [evalLoop]
      repeat (first
        | exact ext_refl _ _ | apply ihE | apply ihW | apply ext_seq | apply ext_loopStep | intro _ _ | split)
    · intro x items b acc s
      cases items with
      | nil => simp only [evalFor]; exact ext_set _ _ _ _
      | cons item rest =>
        simp only [evalFor]
        exact ext_of_set (ext_loopStep (ihE _ _) (fun v s' => ihF _ _ _ _ _))

/-! ### integer power -/

/-- square-and-multiply on `Int64` computes the mathematical power modulo 2⁶⁴ -/
theorem wpow_spec : ∀ (fuel : Nat) (x : Int) (e : Nat), e < 2 ^ fuel →
    Num.wpow fuel (Int64.ofInt x) e = Int64.ofInt (x ^ e) := by
  intro fuel
  induction fuel with
  | zero =>
    intro x e he
    have : e = 0 := by simpa using he
    subst this
    simp [Num.wpow]
  | succ fuel ih =>
    intro x e he
    unfold Num.wpow
    by_cases h0 : e = 0
    · subst h0; simp
    · simp only [h0, if_false]
      have hdiv : e / 2 < 2 ^ fuel := by
        have : 2 ^ (fuel + 1) = 2 * 2 ^ fuel := by rw [Nat.pow_succ]; omega
        omega
      have hsq : Int64.ofInt x * Int64.ofInt x = Int64.ofInt (x * x) := (Int64.ofInt_mul x x).symm
      rw [hsq, ih (x * x) (e / 2) hdiv]
      have hpow : (x * x) ^ (e / 2) = x ^ (2 * (e / 2)) := by
        rw [Int.pow_mul]; congr 1; simp [Int.pow_succ]
      by_cases h1 : e % 2 = 1
      · simp only [h1, if_true]
        rw [← Int64.ofInt_mul, hpow]
        congr 1
        have : e = 2 * (e / 2) + 1 := by omega
        conv => rhs; rw [this, Int.pow_succ]
        rw [Int.mul_comm]
      · simp only [h1, if_false]
        rw [hpow]
        have : e = 2 * (e / 2) := by omega
        rw [← this]

end KotoVerif.C01
