/-
C03 — alternatives other than the last one at full strength, for the repaired code
(`Cfg.nestedLast`, /repo 075f64d), and error-freedom of pattern code on `plain` values once
`sizeNullJumps` (7886e40) and `accessFalls` (1750a1b) are in.
-/
import KotoVerif.Lemmas.C03

namespace KotoVerif
namespace Match

variable {C : Cfg}

/-! ### with `nestedLast`, a pattern in a non-last position behaves the same in every alternative -/

theorem mEnts_match_fin (es : List Ent) (s : Src) (ρ : Env) :
    (match mEnts C es s ρ with
     | .ok ρ1 => fin false false ρ1
     | r => r) =
    (match mEnts C es s ρ with
     | .ok ρ1 => fin true false ρ1
     | r => r) := by
  cases mEnts C es s ρ <;> simp [fin]

mutual
theorem mPat_nonlast_eq (F : FloatOps) (hC : C.nestedLast = true) : ∀ (p : Pat) (a : Acc) (ρ : Env),
    mPat F C false p false a ρ = mPat F C true p false a ρ
  | .lit l, a, ρ => by simp [mPat, fin]
  | .id x ty, a, ρ => by simp [mPat, fin]
  | .wild ty, a, ρ => by cases ty <;> simp [mPat, fin]
  | .map es ty, a, ρ => by
    simp only [mPat]
    cases container ρ a with
    | error e => rfl
    | ok s =>
      simp only
      split
      · rfl
      · exact mEnts_match_fin es s ρ
  | .seq pre rest post, a, ρ => by
    have h1 := fun s i ρ => mPats_nonlast_eq F hC pre s i ρ
    have h2 := fun s i ρ => mPats_nonlast_eq F hC post s i ρ
    simp only [mPat, hC, if_true, h1, h2]
    simp [fin]
theorem mPats_nonlast_eq (F : FloatOps) (hC : C.nestedLast = true) : ∀ (ps : List Pat) (s : Src) (i : Int)
    (ρ : Env), mPats F C false ps s i false ρ = mPats F C true ps s i false ρ
  | [], _, _, _ => by simp [mPats]
  | p :: ps, s, i, ρ => by
    simp only [mPats, Bool.false_and]
    rw [mPat_nonlast_eq F hC p _ ρ]
    cases mPat F C true p false (.elem s i) ρ <;> simp [mPats_nonlast_eq F hC ps s (i + 1)]
end

/-! ### the un-restricted statement for non-last alternatives -/

mutual
theorem specN_pat_full (F : FloatOps) (hC : C.nestedLast = true) : ∀ (p : Pat), wf p = true → SpecN F C p
  | .lit l, _ => specN_lit F l
  | .id x ty, _ => specN_id F x ty
  | .wild ty, _ => specN_wild F ty
  | .map es ty, _ => specN_map F es ty
  | .seq pre rest post, hw => by
    have hw' := hw
    simp only [wf, Bool.and_eq_true, Bool.or_eq_true, decide_eq_true_eq, List.isEmpty_iff] at hw'
    obtain ⟨⟨⟨hshape, hn⟩, hwpre⟩, hwpost⟩ := hw'
    cases post with
    | nil =>
      cases rest with
      | none =>
        have hne : pre ≠ [] := by intro h; subst h; simp [restCount] at hn
        exact specN_exact F pre hne (specN_pats_full F hC pre hwpre hne)
      | some r =>
        exact specN_trailing F pre r (spec_pats F pre hwpre) (fun s i ρ => mPats_nonlast_eq F hC pre s i ρ)
    | cons q qs =>
      rcases hshape with h | ⟨rfl, hr⟩
      · simp at h
      · cases rest with
        | none => simp at hr
        | some r => exact specN_leading F (q :: qs) r (by simp) (specN_pats_full F hC (q :: qs) hwpost (by simp))
theorem specN_pats_full (F : FloatOps) (hC : C.nestedLast = true) : ∀ (ps : List Pat), wfL ps = true →
    ps ≠ [] → SpecNL F C ps
  | [], _, h => absurd rfl h
  | [p], hw, _ => by
    simp only [wfL, Bool.and_eq_true] at hw
    exact specNL_single F p (specN_pat_full F hC p hw.1)
  | p :: q :: ps, hw, _ => by
    simp only [wfL, Bool.and_eq_true] at hw
    exact specNL_cons F p q ps (fun a ρ => mPat_nonlast_eq F hC p a ρ) (spec_pat F p hw.1)
      (specN_pats_full F hC (q :: ps) (by simp [wfL, hw.2]) (by simp))
end

/-! ### error-freedom -/

/-- the two repairs that remove the runtime errors of pattern code on plain data -/
def Safe (C : Cfg) : Prop := C.sizeNullJumps = true ∧ C.accessFalls = true

theorem mEntsSeq_noerr (hC : C.accessFalls = true) : ∀ (es : List Ent) (v : Val) (ρ : Env) (e : Err),
    mEntsSeq C es (.tmp v) ρ ≠ .err e
  | [], _, _, _ => by simp [mEntsSeq]
  | en :: es, v, ρ, e => by
    simp only [mEntsSeq, Src.rd]
    cases v with
    | map m =>
      simp only [tryAccess]
      cases lookupKey en.key m with
      | none => simp
      | some x =>
        simp only
        split
        · simp
        · exact mEntsSeq_noerr hC es _ _ e
    | _ => simp [tryAccess, hC]

theorem collect_noerr (hC : C.accessFalls = true) : ∀ (es : List Ent) (v : Val) (e : Err),
    collectEnts C es v ≠ .error e
  | [], _, _ => by simp [collectEnts]
  | en :: es, v, e => by
    have ih := collect_noerr hC es v e
    simp only [collectEnts]
    cases v with
    | map m =>
      simp only [tryAccess]
      cases lookupKey en.key m with
      | none => simp
      | some x =>
        simp only
        split
        · simp
        · cases hc : collectEnts C es (.map m) with
          | error er => exact absurd hc (collect_noerr hC es _ er)
          | ok o => cases o <;> simp
    | _ => simp [tryAccess, hC]

theorem mEnts_noerr (hC : C.accessFalls = true) (es : List Ent) (v : Val) (ρ : Env) (e : Err) :
    mEnts C es (.tmp v) ρ ≠ .err e := by
  unfold mEnts
  split
  · simp only [Src.rd]
    cases hc : collectEnts C es v with
    | error er => exact absurd hc (collect_noerr hC es v er)
    | ok o => cases o <;> simp
  · exact mEntsSeq_noerr hC es v ρ e

def NoErr (F : FloatOps) (C : Cfg) (p : Pat) : Prop :=
  ∀ (la il : Bool) (a : Acc) (ρ : Env) (v : Val) (e : Err), Reads a v → plain v = true →
    mPat F C la p il a ρ ≠ .err e

def NoErrL (F : FloatOps) (C : Cfg) (ps : List Pat) : Prop :=
  ∀ (la : Bool) (c : Val) (i : Int) (lf : Bool) (ρ : Env) (ys : List Val) (e : Err), ys.length = ps.length →
    (∀ j (h : j < ys.length), tempIndex c (i + (j : Int)) = .ok ys[j]) → plainL ys = true →
    mPats F C la ps (.tmp c) i lf ρ ≠ .err e

theorem noErrL_nil (F : FloatOps) : NoErrL F C [] := by
  intro la c i lf ρ ys e _ _ _
  simp [mPats]

theorem noErrL_cons (F : FloatOps) (p : Pat) (ps : List Pat) (hp : NoErr F C p) (hps : NoErrL F C ps) :
    NoErrL F C (p :: ps) := by
  intro la c i lf ρ ys e hlen hidx hnr
  cases ys with
  | nil => simp at hlen
  | cons y ys' =>
    have hy : Reads (.elem (.tmp c) i) y := by
      have h0 := hidx 0 (by simp)
      rw [List.getElem_cons_zero] at h0
      exact Or.inr ⟨c, i, rfl, by simpa using h0⟩
    simp only [plainL, Bool.and_eq_true] at hnr
    have hlen' : ys'.length = ps.length := by simpa using hlen
    have hidx' : ∀ j (h : j < ys'.length), tempIndex c (i + 1 + (j : Int)) = .ok ys'[j] := by
      intro j h
      have := hidx (j + 1) (by simp; omega)
      simp only [List.getElem_cons_succ] at this
      rw [← this]; congr 1; push_cast; omega
    simp only [mPats]
    cases hr : mPat F C la p (lf && ps.isEmpty) (.elem (.tmp c) i) ρ with
    | ok ρ1 => exact hps la c (i + 1) lf ρ1 ys' e hlen' hidx' hnr.2
    | done ρ1 => simp
    | fail ρ1 => simp
    | err e' => exact absurd hr (hp la _ _ ρ y e' hy hnr.1)

theorem noErr_seq (F : FloatOps) (hS : Safe C) (pre : List Pat) (rest : Option (Option Name)) (post : List Pat)
    (hw : wf (.seq pre rest post) = true) (h1 : NoErrL F C pre) (h2 : NoErrL F C post) :
    NoErr F C (.seq pre rest post) := by
  intro la il a ρ v e hr hnr
  simp only [wf, Bool.and_eq_true, Bool.or_eq_true, decide_eq_true_eq, List.isEmpty_iff] at hw
  obtain ⟨⟨⟨hshape, hn⟩, _⟩, _⟩ := hw
  cases rest with
  | none =>
    rcases hshape with rfl | ⟨_, hr'⟩
    · have hpre : pre ≠ [] := by intro h; subst h; simp [restCount] at hn
      rw [mPat_exact F la il pre a ρ (.tmp v) hpre (hr.container ρ)]
      simp only [Src.rd]
      cases hv : view v with
      | none => simp [sizeCheck, view_none_size hv hnr]
      | some w =>
        obtain ⟨xs, sl⟩ := w
        simp only [sizeCheck, view_size hv, Bool.false_eq_true, if_false]
        by_cases hl : xs.length = pre.length
        · simp only [hl, beq_self_eq_true]
          exact h1 la v 0 _ ρ xs e hl (by intro j h; simpa using view_index hv j h) (view_plain hv hnr)
        · have hb : (xs.length == pre.length) = false := by simpa using hl
          simp [hb]
    · simp at hr'
  | some r =>
    by_cases hp : post = []
    · subst hp
      rw [mPat_trailing F la il pre r a ρ (.tmp v) (hr.container ρ)]
      simp only [Src.rd]
      cases hv : view v with
      | none => simp [sizeCheck, view_none_size hv hnr, hS.1]
      | some w =>
        obtain ⟨xs, sl⟩ := w
        simp only [sizeCheck, view_size hv, if_true, Nat.add_sub_cancel]
        by_cases hl : pre.length ≤ xs.length
        · have hd : decide (pre.length ≤ xs.length) = true := by simpa using hl
          simp only [hd]
          have hlen : (xs.take pre.length).length = pre.length := by simp; omega
          have hidx : ∀ j (h : j < (xs.take pre.length).length),
              tempIndex v ((0 : Int) + (j : Int)) = .ok (xs.take pre.length)[j] := by
            intro j h
            have hj : j < xs.length := by simp at h; omega
            simpa [List.getElem_take] using view_index hv j hj
          have hne := h1 la v 0 false ρ (xs.take pre.length) e hlen hidx (plainL_take _ _ (view_plain hv hnr))
          have hsl := view_sliceFrom (C := C) hv pre.length hl
          cases hm : mPats F C la pre (.tmp v) 0 false ρ with
          | ok ρ1 =>
            cases r with
            | none => simp [fin]; split <;> simp
            | some x => simp [hsl, fin]; split <;> simp
          | done ρ1 => simp
          | fail ρ1 => simp
          | err e' => simp only; intro h; cases h; exact hne hm
        · have hd : decide (pre.length ≤ xs.length) = false := by simpa using hl
          simp [hd]
    · have hpre : pre = [] := by
        rcases hshape with h | ⟨h, _⟩
        · exact absurd h hp
        · exact h
      subst hpre
      rw [mPat_leading F la il post r a ρ (.tmp v) hp (hr.container ρ)]
      simp only [Src.rd]
      have hq : 0 < post.length := by cases post <;> simp_all
      cases hv : view v with
      | none => simp [sizeCheck, view_none_size hv hnr, hS.1]
      | some w =>
        obtain ⟨xs, sl⟩ := w
        simp only [sizeCheck, view_size hv, if_true, Nat.add_sub_cancel_left]
        by_cases hl : post.length ≤ xs.length
        · have hd : decide (post.length ≤ xs.length) = true := by simpa using hl
          simp only [hd]
          have hlen : (xs.drop (xs.length - post.length)).length = post.length := by
            simp only [List.length_drop]; omega
          have hidx : ∀ j (h : j < (xs.drop (xs.length - post.length)).length),
              tempIndex v (-(post.length : Int) + (j : Int)) = .ok (xs.drop (xs.length - post.length))[j] := by
            intro j h
            have hj : j < post.length := by omega
            have e1 : -(post.length : Int) + (j : Int) = -((post.length - j : Nat) : Int) := by omega
            rw [e1, view_index_neg hv (post.length - j) (by omega) (by omega)]
            simp only [List.getElem_drop]
            congr 2; omega
          have hsl := view_sliceTo (C := C) hv post.length hq hl
          have key := fun ρ1 : Env =>
            h2 la v (-(post.length : Int)) (if C.nestedLast then il else true) ρ1
              (xs.drop (xs.length - post.length)) e hlen hidx (plainL_drop _ _ (view_plain hv hnr))
          cases r with
          | none => simp only; exact key ρ
          | some x => simp only [hsl, Except.map]; exact key _
        · have hd : decide (post.length ≤ xs.length) = false := by simpa using hl
          simp [hd]

mutual
theorem noErr_pat (F : FloatOps) (hS : Safe C) : ∀ (p : Pat), wf p = true → NoErr F C p
  | .lit l, _ => by
    intro la il a ρ v e hr _
    simp only [mPat, hr.fetch]
    split
    · unfold fin; split <;> simp
    · split <;> simp
  | .id x ty, _ => by
    intro la il a ρ v e hr _
    simp only [mPat, hr.fetch]
    split
    · simp
    · unfold fin; split <;> simp
  | .wild ty, _ => by
    intro la il a ρ v e hr _
    cases ty with
    | none => simp only [mPat]; unfold fin; split <;> simp
    | some t =>
      simp only [mPat, hr.fetch]
      split
      · unfold fin; split <;> simp
      · simp
  | .map es ty, _ => by
    intro la il a ρ v e hr _
    simp only [mPat, hr.container, Src.rd]
    by_cases h : tyFail ty v = true
    · simp [h]
    · have h' : tyFail ty v = false := by simpa using h
      simp only [h', Bool.false_eq_true, if_false]
      have := mEnts_noerr (C := C) hS.2 es v ρ
      cases hm : mEnts C es (.tmp v) ρ with
      | ok ρ1 => simp only; unfold fin; split <;> simp
      | done ρ1 => simp
      | fail ρ1 => simp
      | err e' => exact absurd hm (this e')
  | .seq pre rest post, hw =>
    noErr_seq F hS pre rest post hw
      (noErr_pats F hS pre (by simp only [wf, Bool.and_eq_true] at hw; exact hw.1.2))
      (noErr_pats F hS post (by simp only [wf, Bool.and_eq_true] at hw; exact hw.2))
theorem noErr_pats (F : FloatOps) (hS : Safe C) : ∀ (ps : List Pat), wfL ps = true → NoErrL F C ps
  | [], _ => noErrL_nil F
  | p :: ps, h =>
    noErrL_cons F p ps
      (noErr_pat F hS p (by simp only [wfL, Bool.and_eq_true] at h; exact h.1))
      (noErr_pats F hS ps (by simp only [wfL, Bool.and_eq_true] at h; exact h.2))
end

/-! ### whole alternatives -/

theorem tuple_index (vs : List Val) : ∀ j (h : j < vs.length), tempIndex (.tuple vs) ((0 : Int) + (j : Int)) = .ok vs[j] := by
  intro j h
  simpa using view_index (v := .tuple vs) (xs := vs) (sl := fun i j => .tuple ((vs.drop i).take (j - i))) rfl j h

/-- last alternative: success is `ok` with exactly the declared bindings -/
theorem alt_last_spec (F : FloatOps) (a : Alt) (v : Val) (ρ ρ' : Env) (hw : WfAlt a v) (hv : plain v = true) :
    mAlt F C true a (.tmp v) ρ = .ok ρ' ↔ ∃ β, DeclAlt F a v β ∧ ρ' = ρ.apply β := by
  cases a with
  | one p =>
    have sp := spec_pat (C := C) F p hw true (.direct (.tmp v)) ρ v (Or.inl rfl) hv
    exact ⟨sp.2.1 ρ', fun ⟨β, hd, h⟩ => h ▸ sp.1 β hd⟩
  | many ps =>
    obtain ⟨hwl, _, vs, rfl, hlen⟩ := hw
    have sp := spec_pats (C := C) F ps hwl (.tuple vs) 0 true ρ vs hlen (tuple_index vs) (by simpa [plain] using hv)
    simp only [mAlt, DeclAlt]
    constructor
    · intro h; obtain ⟨β, hd, rfl⟩ := sp.2.1 ρ' h; exact ⟨β, ⟨vs, rfl, hd⟩, rfl⟩
    · rintro ⟨β, ⟨vs', hv', hd⟩, rfl⟩; cases hv'; exact sp.1 β hd

theorem alt_last_not_done (F : FloatOps) (a : Alt) (v : Val) (ρ ρ' : Env) (hw : WfAlt a v) (hv : plain v = true) :
    mAlt F C true a (.tmp v) ρ ≠ .done ρ' := by
  cases a with
  | one p => exact (spec_pat (C := C) F p hw true (.direct (.tmp v)) ρ v (Or.inl rfl) hv).2.2 ρ'
  | many ps =>
    obtain ⟨hwl, _, vs, rfl, hlen⟩ := hw
    exact (spec_pats (C := C) F ps hwl (.tuple vs) 0 true ρ vs hlen (tuple_index vs) (by simpa [plain] using hv)).2.2 ρ'

/-- any other alternative: success is the jump to `match_end` with exactly the declared bindings -/
theorem alt_nonlast_spec (F : FloatOps) (hC : C.nestedLast = true) (a : Alt) (v : Val) (ρ ρ' : Env)
    (hw : WfAlt a v) (hv : plain v = true) :
    mAlt F C false a (.tmp v) ρ = .done ρ' ↔ ∃ β, DeclAlt F a v β ∧ ρ' = ρ.apply β := by
  cases a with
  | one p =>
    have sp := specN_pat_full (C := C) F hC p hw (.direct (.tmp v)) ρ v (Or.inl rfl) hv
    exact ⟨sp.2 ρ', fun ⟨β, hd, h⟩ => h ▸ sp.1 β hd⟩
  | many ps =>
    obtain ⟨hwl, hne, vs, rfl, hlen⟩ := hw
    have sp := specN_pats_full (C := C) F hC ps hwl hne (.tuple vs) 0 ρ vs hlen (tuple_index vs)
      (by simpa [plain] using hv)
    simp only [mAlt, DeclAlt]
    constructor
    · intro h; obtain ⟨β, hd, rfl⟩ := sp.2 ρ' h; exact ⟨β, ⟨vs, rfl, hd⟩, rfl⟩
    · rintro ⟨β, ⟨vs', hv', hd⟩, rfl⟩; cases hv'; exact sp.1 β hd

theorem alt_noerr (F : FloatOps) (hS : Safe C) (la : Bool) (a : Alt) (v : Val) (ρ : Env) (e : Err)
    (hw : WfAlt a v) (hv : plain v = true) : mAlt F C la a (.tmp v) ρ ≠ .err e := by
  cases a with
  | one p => exact noErr_pat F hS p hw la true (.direct (.tmp v)) ρ v e (Or.inl rfl) hv
  | many ps =>
    obtain ⟨hwl, _, vs, rfl, hlen⟩ := hw
    exact noErr_pats F hS ps hwl la (.tuple vs) 0 true ρ vs e hlen (tuple_index vs) (by simpa [plain] using hv)

end Match
end KotoVerif
