/-
C05 `compile_wf`, statement layer, part 3: byte listings of the structured loop code.
-/
import KotoVerif.Lemmas.C05CWLoop2

set_option linter.unusedSimpArgs false

namespace KotoVerif.Compile
open KotoVerif.Gen KotoVerif.Bytecode

def SL (cidx : Int → Nat) (c : LCode) (pc : Nat) : List Ann := lay (some Z) pc (encL cidx [] (flatS c))
def szL (cidx : Int → Nat) (c : LCode) : Nat := sizeOfL cidx (flatS c)

theorem encL_eq_nil (cidx : Int → Nat) (done fs : List LFlat) (h : encL cidx done fs = []) : fs = [] := by
  cases fs with
  | nil => rfl
  | cons f rest => cases f <;> simp [encL] at h

theorem SL_start (cidx : Int → Nat) (c : LCode) (pc : Nat) :
    (SL cidx c pc = [] ∧ szL cidx c = 0) ∨ ∃ b rest, SL cidx c pc = b :: rest ∧ b.pc = pc := by
  rcases lay_start (some Z) pc (encL cidx [] (flatS c)) with h | h
  · left
    have := encL_eq_nil cidx _ _ h
    simp [SL, szL, this, lay, sizeOfL, encL]
  · exact .inr h

theorem sizeOfL_reverse (cidx : Int → Nat) (l : List LFlat) : sizeOfL cidx l.reverse = sizeOfL cidx l := by
  induction l with
  | nil => rfl
  | cons f rest ih =>
    rw [List.reverse_cons, sizeOfL_append, ih]
    simp [sizeOfL]; omega

theorem sizeOfL_cons (cidx : Int → Nat) (f : LFlat) (l : List LFlat) :
    sizeOfL cidx (f :: l) = lflatSize cidx f + sizeOfL cidx l := by simp [sizeOfL]
theorem sizeOfL_nil (cidx : Int → Nat) : sizeOfL cidx [] = 0 := rfl

def JB (pc off : Nat) : Ann := ⟨pc, 3, ⟨.JumpBack, [off]⟩, some Z⟩
def JC (pc r : Nat) (neg : Bool) (off : Nat) : Ann := if neg then JIT pc r off else JIF pc r off

theorem esize_jb (off : Nat) : esize ⟨.JumpBack, [off]⟩ = 3 := by
  simp [esize, encode, Instr.fields, Instr.staticArgs, layout, tailLayout, encodeFields, encodeField, encodeU16, Op.code]

/-! ### shapes -/

theorem SL_base (cidx : Int → Nat) (c : Code) (pc : Nat) :
    SL cidx (.base c) pc = S cidx c pc ∧ szL cidx (.base c) = sz cidx c := by
  obtain ⟨h1, h2⟩ := encL_ofFlat cidx (flatten c) []
  exact ⟨by simp [SL, S, flatS, flatAux, h1], by simp [szL, sz, flatS, flatAux, h2]⟩

theorem SL_seq (cidx : Int → Nat) (a b : LCode) (pc : Nat) (h : Simple (.seq a b)) :
    SL cidx (.seq a b) pc = SL cidx a pc ++ SL cidx b (pc + szL cidx a)
    ∧ szL cidx (.seq a b) = szL cidx a + szL cidx b := by
  obtain ⟨a1, _⟩ := simple_closed a h.1
  obtain ⟨_, b2⟩ := simple_closed b h.2
  refine ⟨?_, ?_⟩
  · simp only [SL, szL, flatS_seq a b h, encL_append cidx _ _ a1, encL_closed' cidx _ _ b2, lay_append, esizes_encL]
  · simp only [szL, flatS_seq a b h, sizeOfL_append]

theorem SL_ite_false (cidx : Int → Nat) (r : Nat) (t e : LCode) (pc : Nat) (h : Simple (.ifElse r t false e)) :
    SL cidx (.ifElse r t false e) pc
      = JIF pc r (szL cidx t) :: (SL cidx t (pc + 4) ++ SL cidx e (pc + 4 + szL cidx t))
    ∧ szL cidx (.ifElse r t false e) = 4 + szL cidx t + szL cidx e := by
  obtain ⟨t1, t2⟩ := simple_closed t h.1
  obtain ⟨_, e2⟩ := simple_closed e h.2
  have htake : (flatS t ++ flatS e).take (sizeL t) = flatS t := by
    rw [← flatS_length t]; simp
  refine ⟨?_, ?_⟩
  · simp only [SL, szL, flatS_ite_false r t e h, encL, htake, encL_append cidx _ _ t1, encL_closed' cidx _ _ t2,
      encL_closed' cidx _ _ e2, lay, lay_append, esize_jif, esizes_encL, JIF]
  · simp only [szL, flatS_ite_false r t e h, sizeOfL, List.map_cons, List.sum_cons, lflatSize, List.map_append, List.sum_append]
    omega

theorem SL_ite_true (cidx : Int → Nat) (r : Nat) (t e : LCode) (pc : Nat) (h : Simple (.ifElse r t true e)) :
    SL cidx (.ifElse r t true e) pc
      = JIF pc r (szL cidx t + 3) ::
          (SL cidx t (pc + 4) ++ JMP (pc + 4 + szL cidx t) (szL cidx e) :: SL cidx e (pc + 4 + szL cidx t + 3))
    ∧ szL cidx (.ifElse r t true e) = 4 + szL cidx t + 3 + szL cidx e := by
  obtain ⟨t1, t2⟩ := simple_closed t h.1
  obtain ⟨_, e2⟩ := simple_closed e h.2
  have htake : (flatS t ++ LFlat.jump (sizeL e) :: flatS e).take (sizeL t + 1) = flatS t ++ [LFlat.jump (sizeL e)] := by
    rw [← flatS_length t, List.take_append, List.take_of_length_le (by omega)]; simp
  have htake2 : (flatS e).take (sizeL e) = flatS e := by rw [← flatS_length e]; simp
  refine ⟨?_, ?_⟩
  · simp only [SL, szL, flatS_ite_true r t e h, encL, htake, htake2, encL_append cidx _ _ t1, encL_closed' cidx _ _ t2,
      encL_closed' cidx _ _ e2, lay, lay_append, esize_jif, esize_jump, esizes_encL, JIF, JMP, sizeOfL_append]
    simp [sizeOfL, lflatSize, Nat.add_assoc]
  · simp only [szL, flatS_ite_true r t e h, sizeOfL, List.map_cons, List.sum_cons, lflatSize, List.map_append, List.sum_append]
    omega

theorem SL_loop (cidx : Int → Nat) (cc : Code) (r : Nat) (neg : Bool) (body : LCode) (pc : Nat)
    (h : Simple (.loop (some (cc, r, neg)) body)) :
    SL cidx (.loop (some (cc, r, neg)) body) pc
      = S cidx cc pc ++
          (JC (pc + sz cidx cc) r neg (szL cidx body + 3) ::
            (SL cidx body (pc + sz cidx cc + 4) ++
              [JB (pc + sz cidx cc + 4 + szL cidx body) (sz cidx cc + 4 + szL cidx body + 3)]))
    ∧ szL cidx (.loop (some (cc, r, neg)) body) = sz cidx cc + 4 + szL cidx body + 3 := by
  obtain ⟨b1, b2⟩ := simple_closed body h
  obtain ⟨c1, _⟩ := ofFlat_ok (flatten cc) (flatten_jumpsOk cc)
  obtain ⟨hc1, hc2⟩ := encL_ofFlat cidx (flatten cc) []
  have hlenB : (flatS body ++ [LFlat.jumpBack ((flatten cc).length + 1 + sizeL body + 1)]).take (sizeL body + 1)
      = flatS body ++ [LFlat.jumpBack ((flatten cc).length + 1 + sizeL body + 1)] := by
    apply List.take_of_length_le; simp [flatS_length]
  have hszc : ∀ k, lflatSize cidx (condJump r neg k) = 4 := by intro k; cases neg <;> rfl
  have htakeD : ∀ (D : List LFlat), D.length = (flatten cc).length + 1 + sizeL body →
      D.take ((flatten cc).length + 1 + sizeL body + 1 - 1) = D := by
    intro D hD; apply List.take_of_length_le; omega
  refine ⟨?_, ?_⟩
  · simp only [SL, szL, flatS_loop cc r neg body h, encL_append cidx _ _ c1, hc1, lay_append, esizes_encFlat]
    congr 1
    cases neg
    · simp only [condJump, Bool.false_eq_true, if_false, encL, hlenB, JC, JIF, lay, esize_jif, encL_append cidx _ _ b1,
        lay_append, esizes_encL, esize_jb, JB, sizeOfL_append, S, sz]
      rw [encL_closed' cidx _ _ b2]
      rw [htakeD _ (by simp [flatS_length]; omega)]
      simp only [sizeOfL_append, sizeOfL_reverse, sizeOfL_cons, sizeOfL_nil, hc2, lflatSize, List.reverse_cons,
        List.append_assoc, List.cons_append, List.nil_append]
      simp [Nat.add_assoc, Nat.add_comm, Nat.add_left_comm]
    · simp only [condJump, if_true, encL, hlenB, JC, JIT, lay, esize_jit, encL_append cidx _ _ b1,
        lay_append, esizes_encL, esize_jb, JB, sizeOfL_append, S, sz]
      rw [encL_closed' cidx _ _ b2]
      rw [htakeD _ (by simp [flatS_length]; omega)]
      simp only [sizeOfL_append, sizeOfL_reverse, sizeOfL_cons, sizeOfL_nil, hc2, lflatSize, List.reverse_cons,
        List.append_assoc, List.cons_append, List.nil_append]
      simp [Nat.add_assoc, Nat.add_comm, Nat.add_left_comm]
  · simp only [szL, sz, flatS_loop cc r neg body h, sizeOfL_append, sizeOfL_cons, sizeOfL_nil, hc2, hszc]
    simp only [lflatSize]
    omega

end KotoVerif.Compile
