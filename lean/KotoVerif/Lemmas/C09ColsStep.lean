/-
C09 (columns): the decision taken by one call of `get_next_token`, for a non-error token, consumes a
prefix `t` of the remaining input, and its end position is `posAfter p t` — except for the two
token kinds whose scanners do not use display widths: an `Id` whose first character has width ≠ 1
and a `Whitespace` token containing a character of width ≠ 1 (a tab, under the real width table).
Those contain no line break, so the error they introduce is confined to their line.
-/
import KotoVerif.Lemmas.C09ColsScanners

namespace KotoVerif.Lexer
open KotoVerif.Gen

/-- The token-local exclusion of `cols_exact_partial`: is the column advance of a token of kind
`tok` with text `t` the display width of `t`?  `Id`: the first character is counted as one column
(`char_count = 1 + …`), so it must have width 1.  `Whitespace`: each character is counted as one
column (`consume_and_count`), so each must have width 1.  Every other scanner uses display widths. -/
def tokClean (tok : Token) (t : List Ch) : Bool :=
  match tok with
  | .id => match t with
    | c :: _ => c.width == 1
    | [] => true
  | .whitespace => t.all (fun c => c.width == 1)
  | _ => true

theorem tokClean_of_ne {tok : Token} (t : List Ch) (h1 : tok ≠ .id) (h2 : tok ≠ .whitespace) :
    tokClean tok t = true := by
  cases tok <;> simp_all [tokClean]

/-- either the token is clean and its end position is exact, or it is not clean, contains no line
break, and contains a character of width ≠ 1 that starts an identifier or is a tab -/
def PosAlt (tok : Token) (p q : Pos) (t : List Ch) : Prop :=
  (tokClean tok t = true ∧ q = posAfter p t) ∨
  (tokClean tok t = false ∧ nlCount t = 0 ∧
    ∃ c ∈ t, (c.idStart = true ∨ c.cp = cpTab) ∧ c.width ≠ 1)

/-- what the top string mode requires of the remaining input (printable version of `ModeOk`) -/
def ModeOkP (modes : List Mode) (rest : List Ch) : Prop :=
  match modes.head? with
  | some (.rawEnd _ h) => 1 + h ≤ printRun rest
  | _ => True

theorem modeOkP_of_noRawEnd {modes : List Mode} (h : NoRawEnd modes) (rest : List Ch) : ModeOkP modes rest := by
  unfold ModeOkP
  cases modes with
  | nil => simp
  | cons m ms =>
    have := h m (by simp)
    cases m <;> simp_all [isRawEnd]

/-- The decision for a non-error token, with exact positions. -/
def DecOkP (cs : List Ch) (p : Pos) (d : Decision) : Prop :=
  ∃ n q k, d.move = .adv n q ∧ k ≤ cs.length ∧ n = byteLen (cs.take k) ∧
    PosAlt d.tok p q (cs.take k) ∧
    ModeOkP d.modes (cs.drop k) ∧ NoRawEndBelow d.modes

theorem decOkP_of_consumesP {cs : List Ch} {p : Pos} {d : Decision} {n : Nat} {q : Pos}
    (hm : d.move = .adv n q) (hc : ConsumesP cs p (.adv n q))
    (h1 : d.tok ≠ .id) (h2 : d.tok ≠ .whitespace)
    (hmodes : NoRawEnd d.modes) : DecOkP cs p d := by
  obtain ⟨k, k1, k2, k3⟩ := hc
  exact ⟨n, q, k, hm, k1, k2, Or.inl ⟨tokClean_of_ne _ h1 h2, k3⟩,
    modeOkP_of_noRawEnd hmodes _, noRawEndBelow_of_noRawEnd hmodes⟩

theorem decOkP_printable {cs : List Ch} {p : Pos} {d : Decision} {k : Nat} (hw : WidthOk cs)
    (hm : d.move = advLine p k) (hk : k ≤ printRun cs)
    (h1 : d.tok ≠ .id) (h2 : d.tok ≠ .whitespace)
    (hmodes : NoRawEnd d.modes) : DecOkP cs p d :=
  decOkP_of_consumesP (n := k) (q := ⟨p.line, p.col + k⟩) hm (consumesP_printable hw hk) h1 h2 hmodes

/-! ### whitespace -/

theorem mem_take_countWhile (f : Nat → Bool) : ∀ (cs : List Ch), ∀ c ∈ cs.take (countWhile f cs), f c.cp = true := by
  intro cs
  induction cs with
  | nil => intro c hc; simp at hc
  | cons d cs ih =>
    intro c hc
    simp only [countWhile] at hc
    split at hc
    · rename_i hd
      rw [Nat.add_comm, List.take_succ_cons] at hc
      simp only [List.mem_cons] at hc
      rcases hc with rfl | hc
      · exact hd
      · exact ih c hc
    · simp at hc

theorem widthSum_all_one : ∀ t : List Ch, t.all (fun c => c.width == 1) = true → widthSum t = t.length := by
  intro t
  induction t with
  | nil => intro _; rfl
  | cons c cs ih =>
    intro h
    simp only [List.all_cons, Bool.and_eq_true, beq_iff_eq] at h
    simp [h.1, ih h.2]; omega

theorem whitespace_posAlt (p : Pos) (cs : List Ch) (hw : WidthOk cs) :
    PosAlt .whitespace p ⟨p.line, p.col + countWhile isWhitespace cs⟩
      (cs.take (countWhile isWhitespace cs)) := by
  have hle := countWhile_le_asciiRun isWhitespace (fun _ h => isWhitespace_plain h) cs
  have h1 := take_asciiRun cs _ hle
  have hlen : (cs.take (countWhile isWhitespace cs)).length = countWhile isWhitespace cs := by
    have := asciiRun_le_length cs
    simp only [List.length_take]; omega
  by_cases hall : (cs.take (countWhile isWhitespace cs)).all (fun c => c.width == 1) = true
  · left
    refine ⟨hall, ?_⟩
    rw [posAfter_noNL _ _ h1.2, widthSum_all_one _ hall, hlen]
  · right
    refine ⟨by simpa [tokClean] using hall, h1.2, ?_⟩
    have hf : (cs.take (countWhile isWhitespace cs)).all (fun c => c.width == 1) = false := by
      simpa using hall
    rw [List.all_eq_false] at hf
    obtain ⟨c, hc, hcw⟩ := hf
    simp only [beq_iff_eq] at hcw
    refine ⟨c, hc, Or.inr ?_, hcw⟩
    have hws := mem_take_countWhile isWhitespace cs c hc
    simp only [isWhitespace, Bool.or_eq_true, beq_iff_eq] at hws
    rcases hws with hws | hws
    · exact absurd (hw c (List.mem_of_mem_take hc) (by rw [hws]; decide)) hcw
    · exact hws

/-! ### consume_id_or_keyword -/

/-- what `consume_id_or_keyword` returns always moves, by the bytes of a prefix of the input, with
the position alternative of its token kind -/
def IdResOkP (cs : List Ch) (p : Pos) : IdRes → Prop
  | .tok t m => t ≠ .whitespace ∧ ∃ n q k, m = .adv n q ∧ k ≤ cs.length ∧ n = byteLen (cs.take k) ∧
      PosAlt t p q (cs.take k)
  | .raw _ _ m => ∃ n q, m = .adv n q ∧ ConsumesP cs p m

theorem idResOkP_of_consumesP {cs : List Ch} {p : Pos} {t : Token} {n : Nat} {q : Pos}
    (hc : ConsumesP cs p (.adv n q)) (h1 : t ≠ .id) (h2 : t ≠ .whitespace) :
    IdResOkP cs p (.tok t (.adv n q)) := by
  obtain ⟨k, k1, k2, k3⟩ := hc
  exact ⟨h2, n, q, k, rfl, k1, k2, Or.inl ⟨tokClean_of_ne _ h1 h2, k3⟩⟩

theorem consumeIdOrKeyword_okP (p : Pos) (prevTok : Option Token) (c : Ch) (rest : List Ch)
    (ht : TableOk (c :: rest)) (hw : WidthOk (c :: rest)) (hs : c.idStart = true) :
    IdResOkP (c :: rest) p (consumeIdOrKeyword p prevTok (c :: rest)) := by
  unfold consumeIdOrKeyword
  simp only
  by_cases helse : ((takeIdChars (c :: rest)).map (·.cp) == elseCps) = true
  · simp only [helse, if_true]
    simp only [beq_iff_eq] at helse
    by_cases h7 : (startsWith elseIfCps (c :: rest) && elseIfBoundary (c :: rest)) = true
    · simp only [h7, if_true]
      have h7' : startsWith elseIfCps (c :: rest) = true := (Bool.and_eq_true _ _ ▸ h7).1
      exact idResOkP_of_consumesP
        (consumesP_printable hw (startsWith_printRun elseIfCps _ h7' (by decide))) (by simp) (by simp)
    · simp only [h7]
      exact idResOkP_of_consumesP
        (consumesP_printable hw (idCps_printRun (k := elseCps) helse (by decide))) (by simp) (by simp)
  · simp only [helse]
    cases hraw : (if ((takeIdChars (c :: rest)).map (·.cp) == [cp_r]) = true then rawStringStart rest 0 else none) with
    | some qh =>
      obtain ⟨q, h⟩ := qh
      simp only
      refine ⟨_, _, rfl, consumesP_printable hw ?_⟩
      split at hraw
      · rename_i hr
        simp only [beq_iff_eq] at hr
        have hc : printable c.cp = true := by
          have : c.cp = cp_r := by
            simp only [takeIdChars, List.map_cons] at hr
            exact (List.cons.inj hr).1
          rw [this]; decide
        have := rawStringStart_printRun _ _ _ _ hraw
        rw [printRun_cons_printable hc]
        omega
      · simp at hraw
    | none =>
      simp only
      cases hkw : (if (prevTok == some (Token.sym Sym.Dot)) = true then none
          else lookupKeyword ((takeIdChars (c :: rest)).map (·.cp)) keywordTable) with
      | some nt =>
        obtain ⟨n, t⟩ := nt
        simp only
        split at hkw
        · simp at hkw
        · obtain ⟨k, h1, h2, h3⟩ := lookupKeyword_spec _ _ _ _ hkw
          subst h3
          exact idResOkP_of_consumesP
            (consumesP_printable hw (idCps_printRun h2 (keywordTable_printable _ h1))) (by simp) (by simp)
      | none =>
        simp only
        obtain ⟨k, k1, k2, k3, k4, k5⟩ := id_pos p ht (Or.inl hs)
        refine ⟨by simp, _, _, k, rfl, k1, k3, ?_⟩
        by_cases hcw : c.width = 1
        · left
          refine ⟨by rw [k2]; simp [tokClean, hcw], k5 hcw⟩
        · right
          refine ⟨by rw [k2]; simp [tokClean, hcw], k4, c, by rw [k2]; simp, Or.inl hs, hcw⟩

/-! ### the dispatch -/

theorem decideDefault_okP (p : Pos) (prevTok : Option Token) (modes : List Mode) (c : Ch) (rest : List Ch)
    (ht : TableOk (c :: rest)) (hw : WidthOk (c :: rest)) (hmodes : NoRawEnd modes)
    (h : (decideDefault p prevTok modes c rest).tok ≠ .error) :
    DecOkP (c :: rest) p (decideDefault p prevTok modes c rest) := by
  unfold decideDefault at h ⊢
  simp only at h ⊢
  by_cases h1 : isWhitespace c.cp = true
  · simp only [h1, if_true] at h ⊢
    have hle := countWhile_le_asciiRun isWhitespace (fun _ h => isWhitespace_plain h) (c :: rest)
    have h1' := take_asciiRun (c :: rest) _ hle
    exact ⟨_, _, countWhile isWhitespace (c :: rest), rfl,
      Nat.le_trans hle (asciiRun_le_length _), h1'.1.symm, whitespace_posAlt p (c :: rest) hw,
      modeOkP_of_noRawEnd hmodes _, noRawEndBelow_of_noRawEnd hmodes⟩
  simp only [h1] at h ⊢
  by_cases h2 : (c.cp = cpCR || c.cp = cpNL) = true
  · simp only [h2, if_true] at h ⊢
    obtain ⟨n, q, hm⟩ := consumeNewline_adv p (c :: rest) h
    have := consumeNewline_consumesP p (c :: rest)
    rw [hm] at this
    have htok : (consumeNewline p (c :: rest)).1 ≠ .id ∧ (consumeNewline p (c :: rest)).1 ≠ .whitespace := by
      rcases consumeNewline_tok p (c :: rest) with e | e <;> rw [e] <;> simp
    exact decOkP_of_consumesP hm this htok.1 htok.2 hmodes
  simp only [h2] at h ⊢
  by_cases h3 : c.cp = cpHash
  · simp only [h3, if_true] at h ⊢
    obtain ⟨n, q, hm⟩ := consumeComment_adv p (c :: rest) h
    have := consumeComment_consumesP p c rest h3 hw
    rw [hm] at this
    have htok := consumeComment_tok p (c :: rest)
    exact decOkP_of_consumesP hm this htok.1 htok.2 hmodes
  simp only [h3, if_false] at h ⊢
  by_cases h4 : c.cp = cpDQ
  · simp only [h4, if_true] at h ⊢
    have hc : printable c.cp = true := by rw [h4]; decide
    exact decOkP_printable (k := 1) hw rfl (by rw [printRun_cons_printable hc]; omega)
      (by simp) (by simp) (noRawEnd_cons rfl hmodes)
  simp only [h4, if_false] at h ⊢
  by_cases h5 : c.cp = cpSQ
  · simp only [h5, if_true] at h ⊢
    have hc : printable c.cp = true := by rw [h5]; decide
    exact decOkP_printable (k := 1) hw rfl (by rw [printRun_cons_printable hc]; omega)
      (by simp) (by simp) (noRawEnd_cons rfl hmodes)
  simp only [h5, if_false] at h ⊢
  by_cases h6 : isAsciiDigit c.cp = true
  · simp only [h6, if_true] at h ⊢
    exact decOkP_printable hw rfl (numberBytes_leP _) (by simp) (by simp) hmodes
  simp only [h6] at h ⊢
  by_cases h7 : c.idStart = true
  · simp only [h7, if_true] at h ⊢
    have := consumeIdOrKeyword_okP p prevTok c rest ht hw h7
    cases hr : consumeIdOrKeyword p prevTok (c :: rest) with
    | tok t m =>
      rw [hr] at this
      obtain ⟨_, n, q, k, hm, k1, k2, k3⟩ := this
      simp only
      exact ⟨n, q, k, hm, k1, k2, k3, modeOkP_of_noRawEnd hmodes _, noRawEndBelow_of_noRawEnd hmodes⟩
    | raw q' h' m =>
      rw [hr] at this
      obtain ⟨n, q, hm, hc⟩ := this
      simp only
      subst hm
      exact decOkP_of_consumesP rfl hc (by simp) (by simp) (noRawEnd_cons rfl hmodes)
  simp only [h7] at h ⊢
  by_cases h8 : c.cp = cpUnderscore
  · simp only [h8, if_true] at h ⊢
    simp only [consumeIgnored]
    obtain ⟨k, k1, k2, k3, k4, k5⟩ := id_pos p ht (Or.inr h8)
    have hcw : c.width = 1 := hw.head (by rw [h8]; decide)
    exact decOkP_of_consumesP (n := c.len + (countWhileUtf8 (·.idCont) rest).1)
      (q := ⟨p.line, p.col + (1 + (countWhileUtf8 (·.idCont) rest).2)⟩) rfl
      ⟨k, k1, k3, k5 hcw⟩ (by simp) (by simp) hmodes
  simp only [h8, if_false] at h ⊢
  cases hs : lookupSymbol (c :: rest) symbolTable with
  | none => simp [hs] at h
  | some nsy =>
    obtain ⟨n, sy⟩ := nsy
    simp only
    have hc := symbol_consumesP p hw hs
    refine decOkP_of_consumesP rfl hc (by simp) (by simp) ?_
    show NoRawEnd (if _ then _ else _)
    split
    · exact noRawEnd_cons rfl hmodes
    · split
      · exact noRawEnd_cons rfl hmodes
      · split
        · exact noRawEnd_tail (noRawEndBelow_of_noRawEnd hmodes)
        · exact hmodes

theorem decideTok_okP (p : Pos) (prevTok : Option Token) (modes : List Mode) (c : Ch) (rest : List Ch)
    (ht : TableOk (c :: rest)) (hw : WidthOk (c :: rest))
    (hmo : ModeOkP modes (c :: rest)) (hnb : NoRawEndBelow modes)
    (h : (decideTok p prevTok modes c rest).tok ≠ .error) :
    DecOkP (c :: rest) p (decideTok p prevTok modes c rest) := by
  unfold decideTok at h ⊢
  simp only at h ⊢
  cases hmode : modes.head? with
  | none =>
    simp only [hmode] at h ⊢
    exact decideDefault_okP p prevTok modes c rest ht hw
      (noRawEnd_of_head hnb (fun m hm => by simp [hmode] at hm)) h
  | some m =>
    cases m with
    | literal q =>
      simp only [hmode] at h ⊢
      have hall : NoRawEnd modes := noRawEnd_of_head hnb (fun m hm => by
        simp [hmode] at hm; subst hm; rfl)
      by_cases h1 : isQuote q c.cp = true
      · simp only [h1, if_true] at h ⊢
        exact decOkP_printable (k := 1) hw rfl
          (by rw [printRun_cons_printable (isQuote_printable h1)]; omega)
          (by simp) (by simp) (noRawEnd_tail hnb)
      · simp only [h1] at h ⊢
        by_cases h2 : c.cp = cpLBrace
        · simp only [h2, if_true] at h ⊢
          have hc : printable c.cp = true := by rw [h2]; decide
          exact decOkP_printable (k := 1) hw rfl (by rw [printRun_cons_printable hc]; omega)
            (by simp) (by simp) (noRawEnd_cons rfl hall)
        · simp only [h2, if_false] at h ⊢
          obtain ⟨n, q', hm⟩ := stringLiteralLoop_adv q (c :: rest) p h
          have := stringLiteralLoop_consumesP q (c :: rest) p hw
          rw [hm] at this
          have htok := stringLiteralLoop_tok q (c :: rest) p
          exact decOkP_of_consumesP hm this htok.1 htok.2 hall
    | templateExpr =>
      simp only [hmode] at h ⊢
      exact decideDefault_okP p prevTok modes c rest ht hw
        (noRawEnd_of_head hnb (fun m hm => by simp [hmode] at hm; subst hm; rfl)) h
    | templateInlineMap =>
      simp only [hmode] at h ⊢
      exact decideDefault_okP p prevTok modes c rest ht hw
        (noRawEnd_of_head hnb (fun m hm => by simp [hmode] at hm; subst hm; rfl)) h
    | templateFormat =>
      simp only [hmode] at h ⊢
      obtain ⟨h1, n, q, hm⟩ := consumeFormatOptions_adv p (c :: rest) h
      obtain ⟨k, hk1, hk2, hk3⟩ := consumeFormatOptions_specP p (c :: rest) n q hm
      have hpop : NoRawEnd (popMode modes) := noRawEnd_tail hnb
      refine ⟨n, q, k, hm, hk1, hk2, Or.inl ⟨by simp only [h1]; rfl, hk3⟩, ?_, ?_⟩
      · simp only [h1, if_true]; exact modeOkP_of_noRawEnd hpop _
      · simp only [h1, if_true]; exact noRawEndBelow_of_noRawEnd hpop
    | rawStart q hsh =>
      simp only [hmode] at h ⊢
      have hspec := rawContentsLoop_specP q hsh (c :: rest) p hw
      cases hr : rawContentsLoop q hsh (c :: rest) 0 p with
      | none => simp [hr] at h
      | some bp =>
        obtain ⟨bytes, pos⟩ := bp
        rw [hr] at hspec
        obtain ⟨k, hk1, hk2, hk3, hk4⟩ := hspec
        simp only
        refine ⟨bytes, pos, k, rfl, hk1, hk2, Or.inl ⟨rfl, hk3⟩, ?_, ?_⟩
        · simp only [ModeOkP, List.head?_cons]; exact hk4
        · intro m hm
          exact noRawEnd_tail hnb m (by simpa using hm)
    | rawEnd q hsh =>
      simp only [hmode] at h ⊢
      have hrun : 1 + hsh ≤ printRun (c :: rest) := by
        simpa [ModeOkP, hmode] using hmo
      exact decOkP_printable hw rfl hrun (by simp) (by simp) (noRawEnd_tail hnb)

end KotoVerif.Lexer
