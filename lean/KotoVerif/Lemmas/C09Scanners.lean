/-
C09: every scanner of the lexer model consumes exactly a prefix of the remaining input — its byte
count is the byte length of that prefix and (except `consume_format_options`) its line counter
advances by the number of line breaks in that prefix.
-/
import KotoVerif.Lemmas.C09Ascii

namespace KotoVerif.Lexer

/-- The move accounts exactly for a prefix of `cs`: its bytes and, when `lines`, its line breaks. -/
def Consumes (lines : Bool) (cs : List Ch) (p : Pos) : Move → Prop
  | .stay => True
  | .adv n q => ∃ k, k ≤ cs.length ∧ n = byteLen (cs.take k) ∧
      (lines = true → q.line = p.line + nlCount (cs.take k))

theorem consumes_weaken {cs : List Ch} {p : Pos} {m : Move} (h : Consumes true cs p m) (l : Bool) :
    Consumes l cs p m := by
  cases m with
  | stay => trivial
  | adv n q =>
    obtain ⟨k, h1, h2, h3⟩ := h
    exact ⟨k, h1, h2, fun _ => h3 rfl⟩

theorem consumes_ascii {cs : List Ch} {p : Pos} {k : Nat} (l : Bool) (h : k ≤ asciiRun cs) :
    Consumes l cs p (advLine p k) := by
  have := take_asciiRun cs k h
  refine ⟨k, Nat.le_trans h (asciiRun_le_length cs), this.1.symm, fun _ => ?_⟩
  simp [this.2]

/-- one plain character followed by `extra` plain characters -/
theorem cons_take_plain {c : Ch} {cs : List Ch} {extra : Nat} (h : 1 + extra ≤ asciiRun (c :: cs)) :
    extra ≤ cs.length ∧ byteLen (c :: cs.take extra) = 1 + extra ∧ nlCount (c :: cs.take extra) = 0 := by
  have h' := take_asciiRun (c :: cs) (extra + 1) (by omega)
  simp only [List.take_succ_cons] at h'
  have := asciiRun_le_length (c :: cs)
  simp at this
  exact ⟨by omega, by omega, h'.2⟩

theorem asciiRun_cons_plain {c : Ch} {cs : List Ch} (h : plain c.cp = true) :
    asciiRun (c :: cs) = 1 + asciiRun cs := by simp [asciiRun, h]

/-! ### consume_newline -/

theorem consumeNewline_consumes (p : Pos) (cs : List Ch) :
    Consumes true cs p (consumeNewline p cs).2 := by
  unfold consumeNewline
  cases cs with
  | nil => simp [Consumes]
  | cons c rest =>
    by_cases hc : c.cp = cpCR
    · simp only [hc, if_true]
      cases rest with
      | nil => simp [Consumes]
      | cons d rest' =>
        by_cases hd : d.cp = cpNL
        · simp only [hd, if_true]
          refine ⟨2, by simp, ?_, fun _ => ?_⟩
          · simp [Ch.len, hc, hd, utf8Len, cpCR, cpNL]
          · simp [nlCount_cons, hc, hd, cpCR, cpNL]
        · simp [hd, Consumes]
    · simp only [hc, if_false]
      by_cases hd : c.cp = cpNL
      · simp only [hd, if_true]
        refine ⟨1, by simp, ?_, fun _ => ?_⟩
        · simp [Ch.len, hd, utf8Len, cpNL]
        · simp [nlCount_cons, hd]
      · simp [hd, Consumes]

/-! ### consume_comment -/

theorem multiCommentAct_ok : ActNextOk multiCommentAct := by
  intro c cs b p extra b' p' h
  unfold multiCommentAct at h
  by_cases h1 : c.cp = cpHash
  · simp only [h1, if_true] at h
    have hc : plain c.cp = true := by rw [h1]; decide
    by_cases h2 : peekIs cs cpMinus = true
    · simp only [h2, if_true] at h
      cases h
      have hr : 1 + 1 ≤ asciiRun (c :: cs) := by
        rw [asciiRun_cons_plain hc]
        have := peekIs_asciiRun h2 (by decide)
        omega
      obtain ⟨a1, a2, a3⟩ := cons_take_plain hr
      simp only [byteLen_cons] at a2
      have hl := plain_len hc
      refine ⟨a1, ?_, ?_⟩
      · simp only [byteLen_cons]; omega
      · simp [a3]
    · simp only [h2] at h
      cases h
      refine ⟨by omega, by simp, ?_⟩
      simp [nlCount_cons, plain_not_nl hc]
  · simp only [h1, if_false] at h
    by_cases h2 : c.cp = cpMinus
    · simp only [h2, if_true] at h
      have hc : ¬ c.cp = cpNL := by rw [h2]; decide
      by_cases h3 : peekIs cs cpHash = true
      · simp [h3] at h
      · simp only [h3] at h
        cases h
        exact ⟨by omega, by simp, by simp [nlCount_cons, hc]⟩
    · simp only [h2, if_false] at h
      by_cases h3 : c.cp = cpCR
      · simp only [h3, if_true] at h
        have hc : ¬ c.cp = cpNL := by rw [h3]; decide
        by_cases h4 : peekIs cs cpNL = true
        · simp only [h4, if_true] at h
          cases h
          cases cs with
          | nil => simp [peekIs] at h4
          | cons d cs' =>
            simp [peekIs] at h4
            refine ⟨by simp, ?_, ?_⟩
            · simp [Ch.len, h4, utf8Len, cpNL]; omega
            · simp [nlCount_cons, hc, h4]
        · simp [h4] at h
      · simp only [h3, if_false] at h
        by_cases h4 : c.cp = cpNL
        · simp only [h4, if_true] at h
          cases h
          exact ⟨by omega, by simp, by simp [nlCount_cons, h4]⟩
        · simp only [h4, if_false] at h
          cases h
          exact ⟨by omega, by simp, by simp [nlCount_cons, h4]⟩

theorem multiCommentAct_stop {c : Ch} {cs : List Ch} {b : Nat} {p : Pos} {r : MultiRes}
    (h : multiCommentAct c cs b p = .stop r) :
    r = none ∨ (r = some (b + c.len + 1, ⟨p.line, p.col + c.width + 1⟩, true) ∧ c.cp = cpMinus ∧ peekIs cs cpHash = true) := by
  unfold multiCommentAct at h
  repeat' split at h
  all_goals first
    | (simp at h; done)
    | (simp at h; subst h; simp_all)

/-- what the multi-line comment loop returns accounts for a prefix of its input -/
theorem multiCommentLoop_spec (rest : List Ch) (b0 : Nat) (p0 : Pos) :
    match multiCommentLoop rest b0 p0 with
    | none => True
    | some (bytes, pos, _) => ∃ k, k ≤ rest.length ∧ bytes = b0 + byteLen (rest.take k) ∧
        pos.line = p0.line + nlCount (rest.take k) := by
  unfold multiCommentLoop
  apply scan_spec multiCommentAct _ (fun r => match r with
    | none => True
    | some (bytes, pos, _) => ∃ k, k ≤ rest.length ∧ bytes = b0 + byteLen (rest.take k) ∧
        pos.line = p0.line + nlCount (rest.take k)) rest b0 p0 multiCommentAct_ok
  · intro done c cs b p r h0 hb hp hA
    rcases multiCommentAct_stop hA with hr | ⟨hr, h2, h3⟩
    · subst hr; trivial
    · subst hr
      cases cs with
      | nil => simp [peekIs] at h3
      | cons d cs' =>
        simp [peekIs] at h3
        have ht : (done ++ c :: d :: cs').take (done.length + 2) = done ++ [c, d] := by
          rw [List.take_length_add_append]; simp
        have hc : ¬ c.cp = cpNL := by rw [h2]; decide
        have hd : ¬ d.cp = cpNL := by rw [h3]; decide
        refine ⟨done.length + 2, by simp [h0], ?_, ?_⟩
        · simp [h0, ht, hb, Ch.len, h3, utf8Len, cpHash]; omega
        · simp [h0, ht, hp, nlCount_cons, hc, hd]
  · intro b p hb hp
    exact ⟨rest.length, by omega, by simpa using hb, by simpa using hp⟩

theorem notLineEnd_not_nl (c : Ch) (h : notLineEnd c = true) : ¬ c.cp = cpNL := by
  simp [notLineEnd] at h
  exact h.2

theorem consumeComment_consumes (p : Pos) (c : Ch) (rest : List Ch) (hc : c.cp = cpHash) :
    Consumes true (c :: rest) p (consumeComment p (c :: rest)).2 := by
  have hlen : c.len = 1 := by simp [Ch.len, hc, utf8Len, cpHash]
  have hnl : ¬ c.cp = cpNL := by rw [hc]; decide
  unfold consumeComment
  simp only
  split
  · -- multi-line
    have := multiCommentLoop_spec rest 1 ⟨p.line, p.col + 1⟩
    split
    · trivial
    · rename_i bytes pos found heq
      rw [heq] at this
      obtain ⟨k, h1, h2, h3⟩ := this
      refine ⟨k + 1, by simp; omega, ?_, fun _ => ?_⟩
      · simp [List.take_succ_cons, hlen, h2]
      · simp [List.take_succ_cons, nlCount_cons, hnl, h3]
  · -- single-line
    simp only [advLineUtf8]
    have hb := countWhileUtf8_spec notLineEnd rest
    have hn := nlCount_takeWhile notLineEnd notLineEnd_not_nl rest
    have ht := takeWhile_eq_take notLineEnd rest
    refine ⟨(rest.takeWhile notLineEnd).length + 1, ?_, ?_, fun _ => ?_⟩
    · have := (List.takeWhile_sublist (l := rest) notLineEnd).length_le
      simp; omega
    · simp only [List.take_succ_cons, byteLen_cons, hlen, ← ht, hb]; omega
    · simp only [List.take_succ_cons, nlCount_cons, hnl, ← ht, hn]; simp

end KotoVerif.Lexer
