/-
C19 — helper lemmas: the invariants of the thread model of `Model/Cell.lean` (Part 2) and their
preservation by every micro-step.  The property theorems are in `Props/C19.lean`.
-/
import KotoVerif.Model.Cell
namespace KotoVerif.C19
open KotoVerif.Cell

variable {σ ρ : Type}

structure LockInv (g : Conc σ ρ) : Prop where
  wHeld : ∀ (t : Nat) (th : Thread σ ρ), g.threads[t]? = some th → th.holdsW = true → g.writer = some t
  rHeld : ∀ (t : Nat) (th : Thread σ ρ), g.threads[t]? = some th → th.holdsR = true → t ∈ g.readers
  excl : ∀ w, g.writer = some w → g.readers = []
  wOwner : ∀ t : Nat, g.writer = some t → ∃ th : Thread σ ρ, g.threads[t]? = some th ∧ th.holdsW = true
  rOwner : ∀ t : Nat, t ∈ g.readers → ∃ th : Thread σ ρ, g.threads[t]? = some th ∧ th.holdsR = true
  nodup : g.readers.Nodup
  phaseOk : ∀ (t : Nat) (th : Thread σ ρ), g.threads[t]? = some th → th.prog = [] →
    th.phase = .idle ∨ ∃ w, th.phase = .fin w

theorem lt_of_getElem? {l : List α} {i : Nat} {a : α} (h : l[i]? = some a) : i < l.length := by
  rcases Nat.lt_or_ge i l.length with h' | h'
  · exact h'
  · simp [List.getElem?_eq_none h'] at h

macro "lock_fields" : tactic =>
  `(tactic| (constructor <;> simp only [] <;>
      grind [Thread.holdsW, Thread.holdsR, List.Nodup.mem_erase_iff, List.Nodup.erase, List.nodup_cons]))

theorem lockInv_step (g : Conc σ ρ) (t : Nat) (h : LockInv g) : LockInv (step g t) := by
  unfold step stepP
  cases hth : g.threads[t]? with
  | none => exact h
  | some th =>
    have hlt := lt_of_getElem? hth
    obtain ⟨prog, phase, results, obs⟩ := th
    obtain ⟨h1, h2, h3, h4, h5, h6, h7⟩ := h
    cases phase with
    | idle =>
      cases prog with
      | nil => exact ⟨h1, h2, h3, h4, h5, h6, h7⟩
      | cons o rest =>
        simp only [Policy.excl]
        cases hw : o.write with
        | true =>
          simp only [if_true]
          split
          · rename_i hfree
            obtain ⟨hw0, hr0⟩ := hfree
            lock_fields
          · exact ⟨h1, h2, h3, h4, h5, h6, h7⟩
        | false =>
          simp only [Bool.false_eq_true, if_false]
          split
          · rename_i hfree
            lock_fields
          · exact ⟨h1, h2, h3, h4, h5, h6, h7⟩
    | held =>
      simp only []
      lock_fields
    | loaded s =>
      cases prog with
      | nil => exact ⟨h1, h2, h3, h4, h5, h6, h7⟩
      | cons o rest =>
        simp only [Policy.excl]
        cases hw : o.write with
        | true =>
          simp only [if_true]
          lock_fields
        | false =>
          simp only [Bool.false_eq_true, if_false]
          lock_fields
    | fin w =>
      cases w with
      | true =>
        simp only []
        lock_fields
      | false =>
        simp only []
        lock_fields


theorem seqAll_snoc (d0 : σ) (lin : List (Nat × Op σ ρ)) (e : Nat × Op σ ρ) :
    seqAll d0 (lin ++ [e]) = seqStep (seqAll d0 lin) e := by
  simp [seqAll, List.foldl_append]

theorem resOf_snoc (t u : Nat) (rs : List (Nat × ρ)) (r : ρ) :
    resOf t (rs ++ [(u, r)]) = if u = t then resOf t rs ++ [r] else resOf t rs := by
  by_cases h : u = t <;> simp [resOf, List.filter_append, h]

theorem opsOf_snoc (t u : Nat) (lin : List (Nat × Op σ ρ)) (o : Op σ ρ) :
    opsOf t (lin ++ [(u, o)]) = if u = t then opsOf t lin ++ [o] else opsOf t lin := by
  by_cases h : u = t <;> simp [opsOf, List.filter_append, h]

theorem sum_map_set {α : Type} (f : α → Nat) (l : List α) (i : Nat) (a b : α) (h : l[i]? = some a) :
    ((l.set i b).map f).sum + f a = (l.map f).sum + f b := by
  induction l generalizing i with
  | nil => simp at h
  | cons x xs ih =>
    cases i with
    | zero => simp at h; subst h; simp; omega
    | succ i =>
      simp at h; have := ih i h
      simp only [List.set_cons_succ, List.map_cons, List.sum_cons]; omega

structure DataInv (d0 : σ) (progs : List (List (Op σ ρ))) (g : Conc σ ρ) : Prop where
  data_eq : g.data = (seqAll d0 g.lin).1
  results_eq : ∀ (t : Nat) (th : Thread σ ρ), g.threads[t]? = some th →
    th.results = resOf t (seqAll d0 g.lin).2
  order : ∀ (t : Nat) (th : Thread σ ρ), g.threads[t]? = some th →
    progs[t]? = some (opsOf t g.lin ++ th.prog)
  snap : ∀ (t : Nat) (th : Thread σ ρ) (s : σ), g.threads[t]? = some th → th.phase = .loaded s →
    s = g.data
  obsOk : ∀ (t : Nat) (th : Thread σ ρ) (a b : σ), g.threads[t]? = some th → (a, b) ∈ th.obs →
    a = b ∧ ∃ pre, pre <+: g.lin ∧ a = (seqAll d0 pre).1
  count : g.lin.length + (g.threads.map (fun th => th.prog.length)).sum = (progs.map List.length).sum

theorem loaded_holds (th : Thread σ ρ) (s : σ) (hp : th.phase = .loaded s) (hne : th.prog ≠ []) :
    th.holdsW = true ∨ th.holdsR = true := by
  obtain ⟨prog, phase, _, _⟩ := th
  simp at hp; subst hp
  cases prog with
  | nil => simp at hne
  | cons o rest => cases h : o.write <;> simp [Thread.holdsW, Thread.holdsR, h]

theorem prefix_snoc {α : Type} {pre l : List α} (e : α) (h : pre <+: l) : pre <+: l ++ [e] :=
  List.IsPrefix.trans h (List.prefix_append l [e])

theorem dataInv_step (d0 : σ) (progs : List (List (Op σ ρ))) (g : Conc σ ρ) (t : Nat)
    (hl : LockInv g) (h : DataInv d0 progs g) : DataInv d0 progs (step g t) := by
  unfold step stepP
  cases hth : g.threads[t]? with
  | none => exact h
  | some th =>
    have hlt := lt_of_getElem? hth
    obtain ⟨prog, phase, results, obs⟩ := th
    obtain ⟨l1, l2, l3, l4, l5, l6, l7⟩ := hl
    obtain ⟨h1, h2, h3, h4, h5, h6⟩ := h
    cases phase with
    | idle =>
      cases prog with
      | nil => exact ⟨h1, h2, h3, h4, h5, h6⟩
      | cons o rest =>
        simp only [Policy.excl]
        cases hw : o.write with
        | true =>
          simp only [if_true]
          split
          · refine ⟨h1, ?_, ?_, ?_, ?_, ?_⟩ <;> simp only []
            · grind
            · grind
            · grind
            · grind
            · have hs := sum_map_set (fun (th : Thread σ ρ) => th.prog.length) g.threads t _
                { prog := o :: rest, phase := Phase.held, results := results, obs := obs } hth
              simp only [] at hs
              omega
          · exact ⟨h1, h2, h3, h4, h5, h6⟩
        | false =>
          simp only [Bool.false_eq_true, if_false]
          split
          · refine ⟨h1, ?_, ?_, ?_, ?_, ?_⟩ <;> simp only []
            · grind
            · grind
            · grind
            · grind
            · have hs := sum_map_set (fun (th : Thread σ ρ) => th.prog.length) g.threads t _
                { prog := o :: rest, phase := Phase.held, results := results, obs := obs } hth
              simp only [] at hs
              omega
          · exact ⟨h1, h2, h3, h4, h5, h6⟩
    | held =>
      simp only []
      refine ⟨h1, ?_, ?_, ?_, ?_, ?_⟩ <;> simp only []
      · grind
      · grind
      · grind
      · grind
      · have hs := sum_map_set (fun (th : Thread σ ρ) => th.prog.length) g.threads t _
          { prog := prog, phase := Phase.loaded g.data, results := results, obs := obs } hth
        simp only [] at hs
        omega
    | loaded s =>
      cases prog with
      | nil => exact ⟨h1, h2, h3, h4, h5, h6⟩
      | cons o rest =>
        have hs : s = g.data := h4 t _ s hth rfl
        subst hs
        simp only [Policy.excl]
        cases hw : o.write with
        | true =>
          simp only [if_true]
          have hwt : g.writer = some t := l1 t _ hth (by simp [Thread.holdsW, hw])
          have hr0 : g.readers = [] := l3 t hwt
          refine ⟨?_, ?_, ?_, ?_, ?_, ?_⟩ <;> simp only [seqAll_snoc, seqStep]
          · simp [effD, hw, h1]
          · intro u thu hu
            by_cases hut : u = t
            · subst hut
              simp [List.getElem?_set_self hlt] at hu
              subst hu
              simp [resOf_snoc, ← h1, ← h2 u _ hth]
            · simp only [List.getElem?_set_ne (Ne.symm hut)] at hu
              simp [resOf_snoc, Ne.symm hut, h2 u thu hu]
          · intro u thu hu
            by_cases hut : u = t
            · subst hut
              simp [List.getElem?_set_self hlt] at hu
              subst hu
              simp [opsOf_snoc, h3 u _ hth]
            · simp only [List.getElem?_set_ne (Ne.symm hut)] at hu
              simp [opsOf_snoc, Ne.symm hut, h3 u thu hu]
          · intro u thu s' hu hp
            by_cases hut : u = t
            · subst hut
              simp [List.getElem?_set_self hlt] at hu
              subst hu
              simp at hp
            · simp only [List.getElem?_set_ne (Ne.symm hut)] at hu
              exfalso
              have hne : thu.prog ≠ [] := by
                intro hnil
                rcases l7 u thu hu hnil with h' | ⟨w, h'⟩ <;> simp [hp] at h'
              rcases loaded_holds thu s' hp hne with hW | hR
              · have := l1 u thu hu hW
                simp [hwt] at this
                exact hut this.symm
              · have := l2 u thu hu hR
                simp [hr0] at this
          · intro u thu a b hu hab
            by_cases hut : u = t
            · subst hut
              simp [List.getElem?_set_self hlt] at hu
              subst hu
              obtain ⟨e1, pre, hp, e2⟩ := h5 u _ a b hth hab
              exact ⟨e1, pre, prefix_snoc _ hp, e2⟩
            · simp only [List.getElem?_set_ne (Ne.symm hut)] at hu
              obtain ⟨e1, pre, hp, e2⟩ := h5 u _ a b hu hab
              exact ⟨e1, pre, prefix_snoc _ hp, e2⟩
          · have hs := sum_map_set (fun (th : Thread σ ρ) => th.prog.length) g.threads t _
              { prog := rest, phase := Phase.fin true, results := results ++ [(o.f g.data).2], obs := obs } hth
            simp only [List.length_cons, List.length_append, List.length_nil] at hs ⊢
            omega
        | false =>
          simp only [Bool.false_eq_true, if_false]
          refine ⟨?_, ?_, ?_, ?_, ?_, ?_⟩ <;> simp only [seqAll_snoc, seqStep]
          · simp [effD, hw, h1]
          · intro u thu hu
            by_cases hut : u = t
            · subst hut
              simp [List.getElem?_set_self hlt] at hu
              subst hu
              simp [resOf_snoc, ← h1, ← h2 u _ hth]
            · simp only [List.getElem?_set_ne (Ne.symm hut)] at hu
              simp [resOf_snoc, Ne.symm hut, h2 u thu hu]
          · intro u thu hu
            by_cases hut : u = t
            · subst hut
              simp [List.getElem?_set_self hlt] at hu
              subst hu
              simp [opsOf_snoc, h3 u _ hth]
            · simp only [List.getElem?_set_ne (Ne.symm hut)] at hu
              simp [opsOf_snoc, Ne.symm hut, h3 u thu hu]
          · intro u thu s' hu hp
            by_cases hut : u = t
            · subst hut
              simp [List.getElem?_set_self hlt] at hu
              subst hu
              simp at hp
            · simp only [List.getElem?_set_ne (Ne.symm hut)] at hu
              exact h4 u thu s' hu hp
          · intro u thu a b hu hab
            by_cases hut : u = t
            · subst hut
              simp [List.getElem?_set_self hlt] at hu
              subst hu
              simp only [List.mem_append, List.mem_singleton, Prod.mk.injEq] at hab
              rcases hab with hab | ⟨ea, eb⟩
              · obtain ⟨e1, pre, hp, e2⟩ := h5 u _ a b hth hab
                exact ⟨e1, pre, prefix_snoc _ hp, e2⟩
              · subst ea eb
                exact ⟨rfl, g.lin, List.prefix_append _ _, h1⟩
            · simp only [List.getElem?_set_ne (Ne.symm hut)] at hu
              obtain ⟨e1, pre, hp, e2⟩ := h5 u _ a b hu hab
              exact ⟨e1, pre, prefix_snoc _ hp, e2⟩
          · have hs := sum_map_set (fun (th : Thread σ ρ) => th.prog.length) g.threads t _
              { prog := rest, phase := Phase.fin false, results := results ++ [(o.f g.data).2],
                obs := obs ++ [(g.data, g.data)] } hth
            simp only [List.length_cons, List.length_append, List.length_nil] at hs ⊢
            omega
    | fin w =>
      cases w with
      | true =>
        simp only []
        refine ⟨h1, ?_, ?_, ?_, ?_, ?_⟩ <;> simp only []
        · grind
        · grind
        · grind
        · grind
        · have hs := sum_map_set (fun (th : Thread σ ρ) => th.prog.length) g.threads t _
            { prog := prog, phase := Phase.idle, results := results, obs := obs } hth
          simp only [] at hs
          omega
      | false =>
        simp only []
        refine ⟨h1, ?_, ?_, ?_, ?_, ?_⟩ <;> simp only []
        · grind
        · grind
        · grind
        · grind
        · have hs := sum_map_set (fun (th : Thread σ ρ) => th.prog.length) g.threads t _
            { prog := prog, phase := Phase.idle, results := results, obs := obs } hth
          simp only [] at hs
          omega


theorem threads_length_step (g : Conc σ ρ) (t : Nat) : (step g t).threads.length = g.threads.length := by
  unfold step stepP
  cases hth : g.threads[t]? with
  | none => rfl
  | some th =>
    obtain ⟨prog, phase, results, obs⟩ := th
    cases phase with
    | idle =>
      cases prog with
      | nil => rfl
      | cons o rest => simp only []; split <;> split <;> simp
    | held => simp
    | loaded s =>
      cases prog with
      | nil => rfl
      | cons o rest => simp only []; split <;> simp
    | fin w => cases w <;> simp

theorem threads_length_exec (g : Conc σ ρ) (sched : List Nat) :
    (exec g sched).threads.length = g.threads.length := by
  induction sched generalizing g with
  | nil => rfl
  | cons t rest ih =>
    show (exec (step g t) rest).threads.length = _
    rw [ih, threads_length_step]

/-- every linearised operation comes from the program of the thread that issued it -/
def LinMem (progs : List (List (Op σ ρ))) (g : Conc σ ρ) : Prop :=
  ∀ e ∈ g.lin, ∃ p, progs[e.1]? = some p ∧ e.2 ∈ p

theorem linMem_step (d0 : σ) (progs : List (List (Op σ ρ))) (g : Conc σ ρ) (t : Nat)
    (h : DataInv d0 progs g) (hm : LinMem progs g) : LinMem progs (step g t) := by
  unfold step stepP
  cases hth : g.threads[t]? with
  | none => exact hm
  | some th =>
    obtain ⟨prog, phase, results, obs⟩ := th
    have ho := h.order t _ hth
    cases phase with
    | idle =>
      cases prog with
      | nil => exact hm
      | cons o rest =>
        simp only []
        split <;> split <;> exact hm
    | held => exact hm
    | loaded s =>
      cases prog with
      | nil => exact hm
      | cons o rest =>
        have key : LinMem progs { g with lin := g.lin ++ [(t, o)] } := by
          intro e he
          simp only [List.mem_append, List.mem_singleton] at he
          rcases he with he | he
          · exact hm e he
          · subst he
            exact ⟨_, ho, by simp⟩
        simp only []
        split <;> exact key
    | fin w => cases w <;> exact hm

structure Inv (d0 : σ) (progs : List (List (Op σ ρ))) (g : Conc σ ρ) : Prop where
  lock : LockInv g
  data : DataInv d0 progs g
  mem : LinMem progs g

theorem inv_init (d0 : σ) (progs : List (List (Op σ ρ))) : Inv d0 progs (init d0 progs) := by
  refine ⟨⟨?_, ?_, ?_, ?_, ?_, ?_, ?_⟩, ⟨?_, ?_, ?_, ?_, ?_, ?_⟩, ?_⟩ <;>
    simp only [init, List.getElem?_map, Option.map_eq_some_iff]
  · rintro t th ⟨p, _, rfl⟩; simp [Thread.holdsW]
  · rintro t th ⟨p, _, rfl⟩; simp [Thread.holdsR]
  · simp
  · simp
  · simp
  · simp
  · rintro t th ⟨p, _, rfl⟩; simp
  · simp [seqAll]
  · rintro t th ⟨p, _, rfl⟩; simp [seqAll, resOf]
  · rintro t th ⟨p, hp, rfl⟩; simp [opsOf, hp]
  · rintro t th s ⟨p, _, rfl⟩; simp
  · rintro t th a b ⟨p, _, rfl⟩; simp
  · simp [List.map_map, Function.comp_def]
  · intro e he; simp at he

theorem inv_step (d0 : σ) (progs : List (List (Op σ ρ))) (g : Conc σ ρ) (t : Nat)
    (h : Inv d0 progs g) : Inv d0 progs (step g t) :=
  ⟨lockInv_step g t h.lock, dataInv_step d0 progs g t h.lock h.data, linMem_step d0 progs g t h.data h.mem⟩

theorem inv_exec (d0 : σ) (progs : List (List (Op σ ρ))) (g : Conc σ ρ) (sched : List Nat)
    (h : Inv d0 progs g) : Inv d0 progs (exec g sched) := by
  induction sched generalizing g with
  | nil => exact h
  | cons t rest ih => exact ih _ (inv_step d0 progs g t h)

theorem inv_reachable (d0 : σ) (progs : List (List (Op σ ρ))) (sched : List Nat) :
    Inv d0 progs (exec (init d0 progs) sched) :=
  inv_exec d0 progs _ sched (inv_init d0 progs)

end KotoVerif.C19
