/-
C01 — bridge between the two C01 layers:

  (A) the reference semantics `Core.eval` (`Model/CoreEval.lean`, the formalised language guide), and
  (B) the reference evaluator `Compile.eval` of the compiler model (`Model/Compile.lean`), which is
      parametric in an operator semantics `Sem`.

`coreSem F` instantiates `Sem` with exactly the value operations `Core.eval` uses (`binop` = `arithV`
/ `cmpV`, `compoundop` = `opAssignV`), `toCore` embeds the compiler model's expression language into
the guide's syntax, and `lockstep` shows that on well-formed expressions, from related
environments, the two evaluators agree step for step: same value, same final environment, same
error/success status, no output — without exception.

History: `Sem` originally had one `binop` for both `x op e` and `x op= e`; the guide (and the
runtime's `run_compound_assign_op!`) accepts numbers only in compound assignment whereas `+` also
joins strings / lists / tuples / maps, so the two models differed on `x += x` with `x = 'a'`. `Sem`
now has a separate `compoundop`; `compound_regression_witness` keeps the old behaviour on record.
-/
import KotoVerif.Model.Compile
import KotoVerif.Lemmas.C01Eval

namespace KotoVerif.C01
open KotoVerif KotoVerif.Core

/-! ## the instantiation of `Sem` and the embedding -/

/-- `none` = the evaluator yields `Res.err _` -/
def ofExcept {α : Type} : Except Err α → Option α
  | .ok v => some v
  | .error _ => none

/-- arithmetic operators of the compiler model as guide operators (comparison operators are
excluded by `wfE`; they are sent to an arbitrary value) -/
def toArith : Compile.BinOp → ArithOp
  | .add => .add | .sub => .sub | .mul => .mul | .div => .div | .rem => .rem | .pow => .pow
  | _ => .add

/-- comparison operators of the compiler model as guide operators (arithmetic operators are
excluded by `wfE`) -/
def toCmp : Compile.BinOp → CmpOp
  | .lt => .lt | .le => .le | .gt => .gt | .ge => .ge | .eq => .eq | .ne => .ne
  | _ => .eq

/-- the operator semantics of the language guide: exactly the value operations `Core.eval` applies
for literals, `-`/`not`, `+ - * / % ^` (`arithV`), the six comparisons (`cmpV`) and compound
assignment (`opAssignV`: numbers only); an error (including `unmodelled`) is `none` -/
@[reducible] def coreSem (F : FloatOps) : Compile.Sem where
  V := Val
  null := Val.null
  ofBool := Val.bool
  ofInt := Val.int
  truthy := Val.truthy
  unop op v :=
    match op with
    | .neg => ofExcept (negV F v)
    | .not => some (Val.bool (!v.truthy))
  binop op a b :=
    if op.isComparison then ofExcept ((cmpV F (toCmp op) a b).map Val.bool)
    else ofExcept (arithV F (toArith op) a b)
  compoundop op a b := ofExcept (opAssignV F (toArith op) a b)

/-- the embedding of the compiler model's expressions into the guide's syntax -/
def toCore : Compile.Expr → Core.Expr
  | .null => .lit .null
  | .bool b => .lit (.bool b)
  | .int n => .lit (Val.int n)
  | .var x => .var x
  | .un op e =>
    match op with
    | .neg => .neg (toCore e)
    | .not => .not (toCore e)
  | .bin op a b => .arith (toArith op) (toCore a) (toCore b)
  | .cmp op a b => .cmp (toCore a) (.cons (toCmp op) (toCore b) .nil)
  | .chain3 op1 op2 a b c =>
    .cmp (toCore a) (.cons (toCmp op1) (toCore b) (.cons (toCmp op2) (toCore c) .nil))
  | .and a b => .and (toCore a) (toCore b)
  | .or a b => .or (toCore a) (toCore b)
  | .assign x e => .assign x (toCore e)
  | .compound op x e => .opAssign (toArith op) x (toCore e)
  | .seq a b => .block (.cons (toCore a) (.cons (toCore b) .nil))
  | .ite c t e => .ifElse (toCore c) (toCore t) (toCore e)
  | .ifThen c t => .ifThen (toCore c) (toCore t)

/-- `bin` / `compound` carry an arithmetic operator, `cmp` / `chain3` comparison operators -/
def wfE : Compile.Expr → Bool
  | .null | .bool _ | .int _ | .var _ => true
  | .un _ a => wfE a
  | .bin op a b => !op.isComparison && wfE a && wfE b
  | .cmp op a b => op.isComparison && wfE a && wfE b
  | .chain3 op1 op2 a b c => op1.isComparison && op2.isComparison && wfE a && wfE b && wfE c
  | .and a b | .or a b | .seq a b | .ifThen a b => wfE a && wfE b
  | .assign _ e => wfE e
  | .compound op _ e => !op.isComparison && wfE e
  | .ite c t e => wfE c && wfE t && wfE e

/-- the two environments bind the same variables to the same values -/
def EnvRel {F : FloatOps} (ρ : Compile.Env (coreSem F)) (env : List (Nat × Val)) : Prop :=
  ∀ x, ρ x = Core.lookup x env

/-- fuel that suffices for `toCore e` (there are no loops in the fragment) -/
def need : Compile.Expr → Nat
  | .null | .bool _ | .int _ | .var _ => 1
  | .un _ a => need a + 1
  | .bin _ a b => need a + need b + 1
  | .cmp _ a b => need a + need b + 2
  | .chain3 _ _ a b c => need a + need b + need c + 3
  | .and a b | .or a b | .ifThen a b => need a + need b + 1
  | .assign _ e | .compound _ _ e => need e + 1
  | .seq a b => need a + need b + 3
  | .ite c t e => need c + need t + need e + 1

theorem need_pos (e : Compile.Expr) : 1 ≤ need e := by
  cases e <;> simp only [need] <;> omega

/-! ## regression witness: why `Sem` has a separate `compoundop` -/

/-- `coreSem F` as it had to be defined while `Sem` had no `compoundop`: compound assignment computed
with the binary operator -/
def coreSemOld (F : FloatOps) : Compile.Sem := { coreSem F with compoundop := (coreSem F).binop }

/-- `x += x` -/
def progCompound : Compile.Expr := .compound .add 0 (.var 0)

/-- **regression witness.** With `compoundop := binop` the two models would differ on `x += x`,
`x = 'a'`: `Compile.eval` would compute `x + x = 'aa'`, the guide semantics — like the runtime's
`run_compound_assign_op!` — raises a type error. (With `coreSem` itself both fail:
`Props/C01Bridge.lean`.) -/
theorem compound_regression_witness :
    (Compile.eval (coreSemOld stubFloatOps) progCompound
        (fun x => if x = 0 then some (Val.str [97]) else none)).map (·.1) matches some (Val.str [97, 97])
    ∧ (Core.eval stubFloatOps 5 (toCore progCompound) { env := [(0, Val.str [97])] }).1 matches .err .type := by
  constructor
  · decide
  · decide

/-! ## small facts -/

theorem lookup_update (x y : Nat) (v : Val) (env : List (Nat × Val)) :
    Core.lookup y (Core.update x v env) = if y = x then some v else Core.lookup y env := by
  induction env with
  | nil =>
    simp only [Core.update, Core.lookup]
  | cons p rest ih =>
    obtain ⟨z, w⟩ := p
    simp only [Core.update]
    by_cases hxz : x = z
    · subst hxz
      simp only [if_true, Core.lookup]
      by_cases hyx : y = x
      · simp [hyx]
      · simp [hyx]
    · simp only [hxz, if_false, Core.lookup, ih]
      by_cases hyz : y = z
      · subst hyz
        have : ¬ y = x := fun h => hxz h.symm
        simp [this]
      · simp [hyz]

theorem EnvRel.set {F : FloatOps} {ρ : Compile.Env (coreSem F)} {s : St} (h : EnvRel ρ s.env)
    (x : Nat) (v : Val) : EnvRel (Compile.Env.set ρ x v) (s.set x v).env := by
  intro y
  simp only [Compile.Env.set, St.set, lookup_update, h y]

theorem EnvRel.empty {F : FloatOps} : EnvRel (F := F) (fun _ => none) ({} : St).env := by
  intro x; rfl

/-! ## `Compile.eval` in bind form -/

section
variable {S : Compile.Sem}

/-- sequencing of `Compile.eval`: `none` propagates -/
def obind (r : Option (S.V × Compile.Env S)) (k : S.V → Compile.Env S → Option (S.V × Compile.Env S)) :
    Option (S.V × Compile.Env S) :=
  match r with
  | some (v, ρ1) => k v ρ1
  | none => none

theorem obind_some {r : Option (S.V × Compile.Env S)} {k : S.V → Compile.Env S → Option (S.V × Compile.Env S)}
    {p : S.V × Compile.Env S} (h : obind r k = some p) : ∃ v1 ρ1, r = some (v1, ρ1) ∧ k v1 ρ1 = some p := by
  cases r with
  | none => simp [obind] at h
  | some q => obtain ⟨v1, ρ1⟩ := q; exact ⟨v1, ρ1, rfl, h⟩

theorem ceval_un (op : Compile.UnOp) (a : Compile.Expr) (ρ : Compile.Env S) :
    Compile.eval S (.un op a) ρ
      = obind (Compile.eval S a ρ) fun v ρ1 => (S.unop op v).map (fun r => (r, ρ1)) := by
  simp only [Compile.eval, obind]
  repeat' (first | rfl | split)

theorem ceval_bin (op : Compile.BinOp) (a b : Compile.Expr) (ρ : Compile.Env S) :
    Compile.eval S (.bin op a b) ρ
      = obind (Compile.eval S a ρ) fun va ρ1 => obind (Compile.eval S b ρ1) fun vb ρ2 =>
          (S.binop op va vb).map (fun r => (r, ρ2)) := by
  simp only [Compile.eval, obind]
  repeat' (first | rfl | split)

theorem ceval_cmp (op : Compile.BinOp) (a b : Compile.Expr) (ρ : Compile.Env S) :
    Compile.eval S (.cmp op a b) ρ
      = obind (Compile.eval S a ρ) fun va ρ1 => obind (Compile.eval S b ρ1) fun vb ρ2 =>
          (S.binop op va vb).map (fun r => (r, ρ2)) := by
  simp only [Compile.eval, obind]
  repeat' (first | rfl | split)

theorem ceval_chain3 (op1 op2 : Compile.BinOp) (a b c : Compile.Expr) (ρ : Compile.Env S) :
    Compile.eval S (.chain3 op1 op2 a b c) ρ
      = obind (Compile.eval S a ρ) fun va ρ1 => obind (Compile.eval S b ρ1) fun vb ρ2 =>
          match S.binop op1 va vb with
          | some r1 =>
            if S.truthy r1 then
              obind (Compile.eval S c ρ2) fun vc ρ3 => (S.binop op2 vb vc).map (fun r => (r, ρ3))
            else some (r1, ρ2)
          | none => none := by
  simp only [Compile.eval, obind]
  repeat' (first | rfl | split)

theorem ceval_and (a b : Compile.Expr) (ρ : Compile.Env S) :
    Compile.eval S (.and a b) ρ
      = obind (Compile.eval S a ρ) fun va ρ1 => if S.truthy va then Compile.eval S b ρ1 else some (va, ρ1) := by
  simp only [Compile.eval, obind]
  repeat' (first | rfl | split)

theorem ceval_or (a b : Compile.Expr) (ρ : Compile.Env S) :
    Compile.eval S (.or a b) ρ
      = obind (Compile.eval S a ρ) fun va ρ1 => if S.truthy va then some (va, ρ1) else Compile.eval S b ρ1 := by
  simp only [Compile.eval, obind]
  repeat' (first | rfl | split)

theorem ceval_assign (x : Nat) (e : Compile.Expr) (ρ : Compile.Env S) :
    Compile.eval S (.assign x e) ρ
      = obind (Compile.eval S e ρ) fun v ρ1 => some (v, Compile.Env.set ρ1 x v) := by
  simp only [Compile.eval, obind]
  repeat' (first | rfl | split)

theorem ceval_compound (op : Compile.BinOp) (x : Nat) (e : Compile.Expr) (ρ : Compile.Env S) :
    Compile.eval S (.compound op x e) ρ
      = match ρ x with
        | some vx => obind (Compile.eval S e ρ) fun vr ρ1 =>
            (S.compoundop op vx vr).map (fun r => (r, Compile.Env.set ρ1 x r))
        | none => none := by
  simp only [Compile.eval, obind]
  repeat' (first | rfl | split)

theorem ceval_seq (a b : Compile.Expr) (ρ : Compile.Env S) :
    Compile.eval S (.seq a b) ρ = obind (Compile.eval S a ρ) fun _ ρ1 => Compile.eval S b ρ1 := by
  simp only [Compile.eval, obind]
  repeat' (first | rfl | split)

theorem ceval_ite (c t e : Compile.Expr) (ρ : Compile.Env S) :
    Compile.eval S (.ite c t e) ρ
      = obind (Compile.eval S c ρ) fun vc ρ1 =>
          if S.truthy vc then Compile.eval S t ρ1 else Compile.eval S e ρ1 := by
  simp only [Compile.eval, obind]
  repeat' (first | rfl | split)

theorem ceval_ifThen (c t : Compile.Expr) (ρ : Compile.Env S) :
    Compile.eval S (.ifThen c t) ρ
      = obind (Compile.eval S c ρ) fun vc ρ1 =>
          if S.truthy vc then Compile.eval S t ρ1 else some (S.null, ρ1) := by
  simp only [Compile.eval, obind]
  repeat' (first | rfl | split)

end

/-! ## `Core.eval` on the image of `toCore`, one step -/

/-- the comparison step of a chain: error, stop with `false`, or go on -/
def chainStep (r : Except Err Bool) (s : St) (k : St → Res Val × St) : Res Val × St :=
  match r with
  | .error e => (.err e, s)
  | .ok false => (.ok (.bool false), s)
  | .ok true => k s

/-- the last step of a compound assignment -/
def finishOp (r : Except Err Val) (x : Nat) (s : St) : Res Val × St :=
  match r with
  | .ok r => (.ok r, s.set x r)
  | .error e => (.err e, s)

theorem eval_lit' (F : FloatOps) (n : Nat) (v : Val) (s : St) : eval F (n + 1) (.lit v) s = (.ok v, s) := by
  simp only [eval]

theorem eval_var_some (F : FloatOps) (n x : Nat) (s : St) (v : Val) (h : lookup x s.env = some v) :
    eval F (n + 1) (.var x) s = (.ok v, s) := by
  simp only [eval, h]

theorem eval_var_none (F : FloatOps) (n x : Nat) (s : St) (h : lookup x s.env = none) :
    eval F (n + 1) (.var x) s = (.err .unbound, s) := by
  simp only [eval, h]

theorem eval_neg' (F : FloatOps) (n : Nat) (a : Expr) (s : St) :
    eval F (n + 1) (.neg a) s = seq (eval F n a s) fun v s => lift (negV F v) s := by
  simp only [eval]

theorem eval_not' (F : FloatOps) (n : Nat) (a : Expr) (s : St) :
    eval F (n + 1) (.not a) s = seq (eval F n a s) fun v s => (.ok (.bool (!v.truthy)), s) := by
  simp only [eval]

theorem eval_arith' (F : FloatOps) (n : Nat) (op : ArithOp) (a b : Expr) (s : St) :
    eval F (n + 1) (.arith op a b) s
      = seq (eval F n a s) fun va s => seq (eval F n b s) fun vb s => lift (arithV F op va vb) s := by
  simp only [eval]

theorem eval_cmp' (F : FloatOps) (n : Nat) (a : Expr) (ch : Chain) (s : St) :
    eval F (n + 1) (.cmp a ch) s = seq (eval F n a s) fun va s => evalChain F n va ch s := by
  simp only [eval]

theorem evalChain_last (F : FloatOps) (n : Nat) (prev : Val) (op : CmpOp) (e : Expr) (s : St) :
    evalChain F (n + 1) prev (.cons op e .nil) s
      = seq (eval F n e s) fun v s => chainStep (cmpV F op prev v) s fun s => (.ok (.bool true), s) := by
  simp only [evalChain]
  congr 1

theorem evalChain_more (F : FloatOps) (n : Nat) (prev : Val) (op op2 : CmpOp) (e e2 : Expr) (rest : Chain) (s : St) :
    evalChain F (n + 1) prev (.cons op e (.cons op2 e2 rest)) s
      = seq (eval F n e s) fun v s =>
          chainStep (cmpV F op prev v) s fun s => evalChain F n v (.cons op2 e2 rest) s := by
  simp only [evalChain]
  congr 1

theorem eval_opAssign_some (F : FloatOps) (n x : Nat) (op : ArithOp) (a : Expr) (s : St) (v0 : Val)
    (h : lookup x s.env = some v0) :
    eval F (n + 1) (.opAssign op x a) s
      = seq (eval F n a s) fun v1 s => finishOp (opAssignV F op v0 v1) x s := by
  simp only [eval, h]
  congr 1

theorem eval_opAssign_none (F : FloatOps) (n x : Nat) (op : ArithOp) (a : Expr) (s : St)
    (h : lookup x s.env = none) :
    eval F (n + 1) (.opAssign op x a) s = (.err .unbound, s) := by
  simp only [eval, h]

/-- `a; b` as a two-expression block (four levels of fuel: block, first, second, end) -/
theorem eval_block2 (F : FloatOps) (n : Nat) (a b : Expr) (s : St) :
    eval F (n + 4) (.block (.cons a (.cons b .nil))) s
      = seq (eval F (n + 2) a s) fun _ s => seq (eval F (n + 1) b s) fun v s => (.ok v, s) := by
  simp only [eval, evalBlock]

theorem eval_ifElse' (F : FloatOps) (n : Nat) (c t e : Expr) (s : St) :
    eval F (n + 1) (.ifElse c t e) s
      = seq (eval F n c s) fun vc s => if vc.truthy then eval F n t s else eval F n e s := by
  simp only [eval]

theorem seq_ok_id {r : Res Val × St} {v : Val} {s : St} (h : r = (.ok v, s)) :
    (seq r fun v s => (.ok v, s)) = (.ok v, s) := by
  rw [h]; rfl

/-! ## agreement, in lockstep -/

/-- the outcome `r` of `Compile.eval (coreSem F)` and the outcome `c` of `Core.eval` agree: both
succeed with the same value, related environments and no new output (`out` = the trace before), or
both fail -/
def Agree {F : FloatOps} (r : Option (Val × Compile.Env (coreSem F))) (c : Res Val × St) (out : List Ev) : Prop :=
  match r with
  | some (v, ρ') => ∃ st', c = (.ok v, st') ∧ EnvRel ρ' st'.env ∧ st'.out = out
  | none => ∃ er st', c = (.err er, st')

theorem Agree.ok {F : FloatOps} {v : Val} {ρ' : Compile.Env (coreSem F)} {s : St} (h : EnvRel ρ' s.env) :
    Agree (some (v, ρ')) (.ok v, s) s.out := ⟨s, rfl, h, rfl⟩

theorem Agree.err {F : FloatOps} (er : Err) (s : St) (out : List Ev) :
    Agree (F := F) none (.err er, s) out := ⟨er, s, rfl⟩

theorem agree_bind {F : FloatOps} {r : Option (Val × Compile.Env (coreSem F))} {c : Res Val × St}
    {out : List Ev} {k1 : Val → Compile.Env (coreSem F) → Option (Val × Compile.Env (coreSem F))}
    {k2 : Val → St → Res Val × St}
    (h : Agree r c out)
    (hk : ∀ v ρ1 s1, r = some (v, ρ1) → EnvRel ρ1 s1.env → s1.out = out → Agree (k1 v ρ1) (k2 v s1) s1.out) :
    Agree (obind (S := coreSem F) r k1) (seq c k2) out := by
  cases r with
  | none => obtain ⟨er, st', rfl⟩ := h; exact ⟨er, st', rfl⟩
  | some p =>
    obtain ⟨v, ρ1⟩ := p
    obtain ⟨st', rfl, hr, ho⟩ := h
    have := hk v ρ1 st' rfl hr ho
    rw [ho] at this
    exact this

theorem binop_cmp {F : FloatOps} {op : Compile.BinOp} (h : op.isComparison = true) (a b : Val) :
    (coreSem F).binop op a b = ofExcept ((cmpV F (toCmp op) a b).map Val.bool) := by
  simp only [coreSem, h, if_true]

theorem binop_arith {F : FloatOps} {op : Compile.BinOp} (h : op.isComparison = false) (a b : Val) :
    (coreSem F).binop op a b = ofExcept (arithV F (toArith op) a b) := by
  simp [coreSem, h]

theorem agree_arith {F : FloatOps} {op : Compile.BinOp} (hop : op.isComparison = false) (va vb : Val)
    {ρ2 : Compile.Env (coreSem F)} {s2 : St} (hr : EnvRel ρ2 s2.env) :
    Agree (((coreSem F).binop op va vb).map (fun r => (r, ρ2))) (lift (arithV F (toArith op) va vb) s2) s2.out := by
  rw [binop_arith hop]
  cases arithV F (toArith op) va vb with
  | error e => exact Agree.err e s2 _
  | ok r => exact Agree.ok hr

theorem agree_cmp_last {F : FloatOps} {op : Compile.BinOp} (hop : op.isComparison = true) (va vb : Val)
    {ρ2 : Compile.Env (coreSem F)} {s2 : St} (hr : EnvRel ρ2 s2.env) :
    Agree (((coreSem F).binop op va vb).map (fun r => (r, ρ2)))
      (chainStep (cmpV F (toCmp op) va vb) s2 fun s => (.ok (.bool true), s)) s2.out := by
  rw [binop_cmp hop]
  cases cmpV F (toCmp op) va vb with
  | error e => exact Agree.err e s2 _
  | ok b => cases b <;> exact Agree.ok hr

/-- **lockstep agreement.** On a well-formed expression, from
related environments and with any fuel `n ≥ need e`, `Compile.eval (coreSem F) e` and
`Core.eval F n (toCore e)` both succeed — with the same value, related final environments and an
unchanged output trace — or both fail. -/
theorem lockstep (F : FloatOps) : ∀ (e : Compile.Expr) (ρ : Compile.Env (coreSem F)) (st : St) (n : Nat),
    wfE e = true → EnvRel ρ st.env → need e ≤ n →
    Agree (Compile.eval (coreSem F) e ρ) (Core.eval F n (toCore e) st) st.out := by
  intro e
  induction e with
  | null | bool _ | int _ =>
    intro ρ st n _ hr hn
    simp only [need] at hn
    obtain ⟨m, rfl⟩ : ∃ m, n = m + 1 := ⟨n - 1, by omega⟩
    simp only [toCore, Compile.eval, eval_lit']
    exact Agree.ok hr
  | var x =>
    intro ρ st n _ hr hn
    simp only [need] at hn
    obtain ⟨m, rfl⟩ : ∃ m, n = m + 1 := ⟨n - 1, by omega⟩
    simp only [toCore, Compile.eval]
    cases hx : Core.lookup x st.env with
    | none =>
      rw [eval_var_none F m x st hx, hr x, hx]
      exact Agree.err _ _ _
    | some w =>
      rw [eval_var_some F m x st w hx, hr x, hx]
      exact Agree.ok hr
  | un op a iha =>
    intro ρ st n hw hr hn
    simp only [need] at hn
    obtain ⟨m, rfl⟩ : ∃ m, n = m + 1 := ⟨n - 1, by omega⟩
    simp only [wfE] at hw
    rw [ceval_un]
    cases op with
    | neg =>
      simp only [toCore, eval_neg']
      refine agree_bind (iha ρ st m hw hr (by omega)) ?_
      intro va ρ1 s1 _ hr1 _
      show Agree ((ofExcept (negV F va)).map _) _ _
      cases negV F va with
      | error e => exact Agree.err e s1 _
      | ok r => exact Agree.ok hr1
    | not =>
      simp only [toCore, eval_not']
      refine agree_bind (iha ρ st m hw hr (by omega)) ?_
      intro va ρ1 s1 _ hr1 _
      exact Agree.ok hr1
  | bin op a b iha ihb =>
    intro ρ st n hw hr hn
    simp only [need] at hn
    obtain ⟨m, rfl⟩ : ∃ m, n = m + 1 := ⟨n - 1, by omega⟩
    simp only [wfE, Bool.and_eq_true, Bool.not_eq_true'] at hw
    rw [ceval_bin]
    simp only [toCore, eval_arith']
    refine agree_bind (iha ρ st m hw.1.2 hr (by omega)) ?_
    intro va ρ1 s1 ha hr1 _
    refine agree_bind (ihb ρ1 s1 m hw.2 hr1 (by omega)) ?_
    intro vb ρ2 s2 _ hr2 _
    exact agree_arith hw.1.1 va vb hr2
  | cmp op a b iha ihb =>
    intro ρ st n hw hr hn
    simp only [need] at hn
    obtain ⟨m, rfl⟩ : ∃ m, n = m + 2 := ⟨n - 2, by omega⟩
    simp only [wfE, Bool.and_eq_true] at hw
    rw [ceval_cmp]
    simp only [toCore, eval_cmp']
    refine agree_bind (iha ρ st (m + 1) hw.1.2 hr (by omega)) ?_
    intro va ρ1 s1 ha hr1 _
    rw [evalChain_last]
    refine agree_bind (ihb ρ1 s1 m hw.2 hr1 (by omega)) ?_
    intro vb ρ2 s2 _ hr2 _
    exact agree_cmp_last hw.1.1 va vb hr2
  | chain3 op1 op2 a b c iha ihb ihc =>
    intro ρ st n hw hr hn
    simp only [need] at hn
    obtain ⟨m, rfl⟩ : ∃ m, n = m + 3 := ⟨n - 3, by omega⟩
    simp only [wfE, Bool.and_eq_true] at hw
    obtain ⟨⟨⟨⟨hop1, hop2⟩, hwa⟩, hwb⟩, hwc⟩ := hw
    rw [ceval_chain3]
    simp only [toCore, eval_cmp']
    refine agree_bind (iha ρ st (m + 2) hwa hr (by omega)) ?_
    intro va ρ1 s1 ha hr1 _
    rw [evalChain_more]
    refine agree_bind (ihb ρ1 s1 (m + 1) hwb hr1 (by omega)) ?_
    intro vb ρ2 s2 hb hr2 _
    simp only [hop1, if_true]
    cases cmpV F (toCmp op1) va vb with
    | error e => exact Agree.err e s2 _
    | ok r =>
      cases r with
      | false => exact Agree.ok hr2
      | true =>
        simp only [Except.map, ofExcept, Val.truthy, if_true, chainStep]
        rw [evalChain_last]
        refine agree_bind (ihc ρ2 s2 m hwc hr2 (by omega)) ?_
        intro vc ρ3 s3 _ hr3 _
        exact agree_cmp_last hop2 vb vc hr3
  | and a b iha ihb =>
    intro ρ st n hw hr hn
    simp only [need] at hn
    obtain ⟨m, rfl⟩ : ∃ m, n = m + 1 := ⟨n - 1, by omega⟩
    simp only [wfE, Bool.and_eq_true] at hw
    rw [ceval_and]
    simp only [toCore, eval_and]
    refine agree_bind (iha ρ st m hw.1 hr (by omega)) ?_
    intro va ρ1 s1 ha hr1 _
    show Agree (if va.truthy = true then _ else _) _ _
    split
    · exact ihb ρ1 s1 m hw.2 hr1 (by omega)
    · exact Agree.ok hr1
  | or a b iha ihb =>
    intro ρ st n hw hr hn
    simp only [need] at hn
    obtain ⟨m, rfl⟩ : ∃ m, n = m + 1 := ⟨n - 1, by omega⟩
    simp only [wfE, Bool.and_eq_true] at hw
    rw [ceval_or]
    simp only [toCore, eval_or]
    refine agree_bind (iha ρ st m hw.1 hr (by omega)) ?_
    intro va ρ1 s1 ha hr1 _
    show Agree (if va.truthy = true then _ else _) _ _
    split
    · exact Agree.ok hr1
    · exact ihb ρ1 s1 m hw.2 hr1 (by omega)
  | assign x e ih =>
    intro ρ st n hw hr hn
    simp only [need] at hn
    obtain ⟨m, rfl⟩ : ∃ m, n = m + 1 := ⟨n - 1, by omega⟩
    simp only [wfE] at hw
    rw [ceval_assign]
    simp only [toCore, eval_assign]
    refine agree_bind (ih ρ st m hw hr (by omega)) ?_
    intro v ρ1 s1 _ hr1 _
    exact ⟨s1.set x v, rfl, hr1.set x v, rfl⟩
  | compound op x e ih =>
    intro ρ st n hw hr hn
    simp only [need] at hn
    obtain ⟨m, rfl⟩ : ∃ m, n = m + 1 := ⟨n - 1, by omega⟩
    simp only [wfE, Bool.and_eq_true, Bool.not_eq_true'] at hw
    rw [ceval_compound]
    simp only [toCore]
    cases hx : Core.lookup x st.env with
    | none =>
      rw [eval_opAssign_none F m x _ _ st hx, hr x, hx]
      exact Agree.err _ _ _
    | some vx =>
      rw [eval_opAssign_some F m x _ _ st vx hx, hr x, hx]
      refine agree_bind (ih ρ st m hw.2 hr (by omega)) ?_
      intro vr ρ1 s1 _ hr1 _
      show Agree ((ofExcept (opAssignV F (toArith op) vx vr)).map _) _ _
      cases opAssignV F (toArith op) vx vr with
      | error er => exact Agree.err er s1 _
      | ok r => exact ⟨s1.set x r, rfl, hr1.set x r, rfl⟩
  | seq a b iha ihb =>
    intro ρ st n hw hr hn
    simp only [need] at hn
    obtain ⟨m, rfl⟩ : ∃ m, n = m + 4 := ⟨n - 4, by have := need_pos a; have := need_pos b; omega⟩
    simp only [wfE, Bool.and_eq_true] at hw
    rw [ceval_seq]
    simp only [toCore, eval_block2]
    refine agree_bind (iha ρ st (m + 2) hw.1 hr (by have := need_pos b; omega)) ?_
    intro va ρ1 s1 ha hr1 _
    have hb := ihb ρ1 s1 (m + 1) hw.2 hr1 (by have := need_pos a; omega)
    cases hcb : Compile.eval (coreSem F) b ρ1 with
    | none =>
      rw [hcb] at hb
      obtain ⟨er, s2, h2⟩ := hb
      rw [h2]; exact Agree.err er s2 _
    | some p =>
      obtain ⟨vb, ρ2⟩ := p
      rw [hcb] at hb
      obtain ⟨s2, h2, hr2, ho2⟩ := hb
      rw [seq_ok_id h2]
      exact ⟨s2, rfl, hr2, ho2⟩
  | ite c t e ihc iht ihe =>
    intro ρ st n hw hr hn
    simp only [need] at hn
    obtain ⟨m, rfl⟩ : ∃ m, n = m + 1 := ⟨n - 1, by omega⟩
    simp only [wfE, Bool.and_eq_true] at hw
    rw [ceval_ite]
    simp only [toCore, eval_ifElse']
    refine agree_bind (ihc ρ st m hw.1.1 hr (by omega)) ?_
    intro vc ρ1 s1 hc hr1 _
    show Agree (if vc.truthy = true then _ else _) _ _
    split
    · exact iht ρ1 s1 m hw.1.2 hr1 (by omega)
    · exact ihe ρ1 s1 m hw.2 hr1 (by omega)
  | ifThen c t ihc iht =>
    intro ρ st n hw hr hn
    simp only [need] at hn
    obtain ⟨m, rfl⟩ : ∃ m, n = m + 1 := ⟨n - 1, by omega⟩
    simp only [wfE, Bool.and_eq_true] at hw
    rw [ceval_ifThen]
    simp only [toCore, eval_ifThen]
    refine agree_bind (ihc ρ st m hw.1 hr (by omega)) ?_
    intro vc ρ1 s1 hc hr1 _
    show Agree (if vc.truthy = true then _ else _) _ _
    split
    · exact iht ρ1 s1 m hw.2 hr1 (by omega)
    · exact Agree.ok hr1

/-! ## the two directions -/

/-- more fuel never changes a finished result (from `fuel_mono_succ`) -/
theorem eval_fuel_add (F : FloatOps) (n : Nat) (e : Expr) (s s' : St) (v : Val)
    (h : eval F n e s = (.ok v, s')) (k : Nat) : eval F (n + k) e s = (.ok v, s') := by
  induction k with
  | zero => exact h
  | succ k ih =>
    rcases (fuel_mono_succ F (n + k)).1 e s with ⟨s'', hs⟩ | heq
    · rw [ih] at hs; cases hs
    · rw [← ih]; exact heq.symm

/-- guide ⊒ compiler model: a successful `Compile.eval (coreSem F)` run is a successful guide run
with the same value, for every fuel `≥ need e`, ending in a related environment, printing nothing -/
theorem bridge_fwd (F : FloatOps) (e : Compile.Expr) (ρ ρ' : Compile.Env (coreSem F)) (st : St) (v : Val)
    (hw : wfE e = true) (hr : EnvRel ρ st.env)
    (hev : Compile.eval (coreSem F) e ρ = some (v, ρ')) :
    ∃ st', (∀ n, need e ≤ n → Core.eval F n (toCore e) st = (.ok v, st'))
      ∧ EnvRel ρ' st'.env ∧ st'.out = st.out := by
  have h0 := lockstep F e ρ st (need e) hw hr (Nat.le_refl _)
  rw [hev] at h0
  obtain ⟨st', h1, h2, h3⟩ := h0
  refine ⟨st', ?_, h2, h3⟩
  intro n hn
  obtain ⟨k, rfl⟩ : ∃ k, n = need e + k := ⟨n - need e, by omega⟩
  exact eval_fuel_add F _ _ _ _ _ h1 k

/-- compiler model ⊒ guide: a successful guide run (any fuel) is a successful
`Compile.eval (coreSem F)` run with the same value and a related environment -/
theorem bridge_conv (F : FloatOps) (e : Compile.Expr) (ρ : Compile.Env (coreSem F)) (st st' : St) (v : Val)
    (fuel : Nat) (hw : wfE e = true) (hr : EnvRel ρ st.env)
    (hev : Core.eval F fuel (toCore e) st = (.ok v, st')) :
    ∃ ρ', Compile.eval (coreSem F) e ρ = some (v, ρ') ∧ EnvRel ρ' st'.env ∧ st'.out = st.out := by
  have h1 := eval_fuel_add F _ _ _ _ _ hev (need e)
  have h0 := lockstep F e ρ st (fuel + need e) hw hr (by omega)
  rw [h1] at h0
  cases hc : Compile.eval (coreSem F) e ρ with
  | none =>
    rw [hc] at h0
    obtain ⟨er, s2, h2⟩ := h0
    cases h2
  | some p =>
    obtain ⟨v2, ρ2⟩ := p
    rw [hc] at h0
    obtain ⟨s2, h2, h3, h4⟩ := h0
    cases h2
    exact ⟨ρ2, rfl, h3, h4⟩

/-- errors correspond too: `Compile.eval (coreSem F)` fails iff the guide run (with enough fuel)
ends in an error -/
theorem bridge_err_iff (F : FloatOps) (e : Compile.Expr) (ρ : Compile.Env (coreSem F)) (st : St) (n : Nat)
    (hw : wfE e = true) (hr : EnvRel ρ st.env) (hn : need e ≤ n) :
    Compile.eval (coreSem F) e ρ = none ↔ ∃ er st', Core.eval F n (toCore e) st = (.err er, st') := by
  have h0 := lockstep F e ρ st n hw hr hn
  constructor
  · intro hc; rw [hc] at h0; exact h0
  · intro ⟨er, s2, h2⟩
    cases hc : Compile.eval (coreSem F) e ρ with
    | none => rfl
    | some p =>
      obtain ⟨v2, ρ2⟩ := p
      rw [hc, h2] at h0
      obtain ⟨s3, h3, _⟩ := h0
      cases h3

end KotoVerif.C01
