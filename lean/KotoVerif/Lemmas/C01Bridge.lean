/-
C01 — bridge between the two C01 layers:

  (A) the reference semantics `Core.eval` (`Model/CoreEval.lean`, the formalised language guide), and
  (B) the reference evaluator `Compile.eval` of the compiler model (`Model/Compile.lean`), which is
      parametric in an operator semantics `Sem`.

`coreSem F` instantiates `Sem` with exactly the value operations `Core.eval` uses, `toCore` embeds
the compiler model's expression language into the guide's syntax, and `lockstep` shows that on
well-formed expressions the two evaluators agree step for step (same value, same environment, same
error/success status, no output) — with ONE exception, which is a genuine difference between the
two models and is stated as an explicit predicate (`Ok`):

  `x op= e` — `Compile.eval` computes it with the *same* `Sem.binop` as `x op e`, whereas the guide
  (and the runtime: `run_compound_assign_op!`) accepts numbers only. `x += x` with `x` a string is
  `some "aa"` in `Compile.eval (coreSem F)` and a type error in `Core.eval`
  (`compound_disagrees` below). The difference needs a string / list / tuple / map operand, which
  the compiler model's fragment cannot construct from the empty environment (its literals are
  `null`, booleans and integers): `Ok e ρ` = "`e` has no compound assignment, or every value bound
  in `ρ` is plain (not a string / list / tuple / map)". Plainness is preserved by evaluation
  (`ceval_plain`), and the empty environment is plain, so whole programs are not affected.
-/
import KotoVerif.Model.Compile
import KotoVerif.Lemmas.C01Eval

namespace KotoVerif.C01
open KotoVerif KotoVerif.Core

/-! ## the instantiation of `Sem` and the embedding -/

/-- `none` = the evaluator yields `Res.err _` -/
def ofExcept {α : Type} : Except Err α → Option α
  | .ok v => some v
  | .error _ => none

/-- arithmetic operators of the compiler model as guide operators (comparison operators are
excluded by `wfE`; they are sent to an arbitrary value) -/
def toArith : Compile.BinOp → ArithOp
  | .add => .add | .sub => .sub | .mul => .mul | .div => .div | .rem => .rem | .pow => .pow
  | _ => .add

/-- comparison operators of the compiler model as guide operators (arithmetic operators are
excluded by `wfE`) -/
def toCmp : Compile.BinOp → CmpOp
  | .lt => .lt | .le => .le | .gt => .gt | .ge => .ge | .eq => .eq | .ne => .ne
  | _ => .eq

/-- the operator semantics of the language guide: exactly the value operations `Core.eval` applies
for literals, `-`/`not`, `+ - * / % ^` (`arithV`) and the six comparisons (`cmpV`); an error
(including `unmodelled`) is `none` -/
@[reducible] def coreSem (F : FloatOps) : Compile.Sem where
  V := Val
  null := Val.null
  ofBool := Val.bool
  ofInt := Val.int
  truthy := Val.truthy
  unop op v :=
    match op with
    | .neg => ofExcept (negV F v)
    | .not => some (Val.bool (!v.truthy))
  binop op a b :=
    if op.isComparison then ofExcept ((cmpV F (toCmp op) a b).map Val.bool)
    else ofExcept (arithV F (toArith op) a b)

/-- the embedding of the compiler model's expressions into the guide's syntax -/
def toCore : Compile.Expr → Core.Expr
  | .null => .lit .null
  | .bool b => .lit (.bool b)
  | .int n => .lit (Val.int n)
  | .var x => .var x
  | .un op e =>
    match op with
    | .neg => .neg (toCore e)
    | .not => .not (toCore e)
  | .bin op a b => .arith (toArith op) (toCore a) (toCore b)
  | .cmp op a b => .cmp (toCore a) (.cons (toCmp op) (toCore b) .nil)
  | .chain3 op1 op2 a b c =>
    .cmp (toCore a) (.cons (toCmp op1) (toCore b) (.cons (toCmp op2) (toCore c) .nil))
  | .and a b => .and (toCore a) (toCore b)
  | .or a b => .or (toCore a) (toCore b)
  | .assign x e => .assign x (toCore e)
  | .compound op x e => .opAssign (toArith op) x (toCore e)
  | .seq a b => .block (.cons (toCore a) (.cons (toCore b) .nil))
  | .ite c t e => .ifElse (toCore c) (toCore t) (toCore e)
  | .ifThen c t => .ifThen (toCore c) (toCore t)

/-- `bin` / `compound` carry an arithmetic operator, `cmp` / `chain3` comparison operators -/
def wfE : Compile.Expr → Bool
  | .null | .bool _ | .int _ | .var _ => true
  | .un _ a => wfE a
  | .bin op a b => !op.isComparison && wfE a && wfE b
  | .cmp op a b => op.isComparison && wfE a && wfE b
  | .chain3 op1 op2 a b c => op1.isComparison && op2.isComparison && wfE a && wfE b && wfE c
  | .and a b | .or a b | .seq a b | .ifThen a b => wfE a && wfE b
  | .assign _ e => wfE e
  | .compound op _ e => !op.isComparison && wfE e
  | .ite c t e => wfE c && wfE t && wfE e

/-- the two environments bind the same variables to the same values -/
def EnvRel {F : FloatOps} (ρ : Compile.Env (coreSem F)) (env : List (Nat × Val)) : Prop :=
  ∀ x, ρ x = Core.lookup x env

/-! ## the exclusion: compound assignment on joinable values -/

/-- no `x op= e` anywhere in the expression -/
def noCompound : Compile.Expr → Bool
  | .null | .bool _ | .int _ | .var _ => true
  | .un _ a => noCompound a
  | .bin _ a b | .cmp _ a b | .and a b | .or a b | .seq a b | .ifThen a b => noCompound a && noCompound b
  | .chain3 _ _ a b c | .ite a b c => noCompound a && noCompound b && noCompound c
  | .assign _ e => noCompound e
  | .compound _ _ _ => false

/-- a value that `+` does not join: not a string / list / tuple / map -/
def plain : Val → Bool
  | .str _ | .list _ | .tuple _ | .map _ => false
  | _ => true

def PlainEnv {F : FloatOps} (ρ : Compile.Env (coreSem F)) : Prop := ∀ x v, ρ x = some v → plain v = true

/-- where the two evaluators are claimed to agree -/
def Ok {F : FloatOps} (e : Compile.Expr) (ρ : Compile.Env (coreSem F)) : Prop :=
  noCompound e = true ∨ PlainEnv ρ

/-- fuel that suffices for `toCore e` (there are no loops in the fragment) -/
def need : Compile.Expr → Nat
  | .null | .bool _ | .int _ | .var _ => 1
  | .un _ a => need a + 1
  | .bin _ a b => need a + need b + 1
  | .cmp _ a b => need a + need b + 2
  | .chain3 _ _ a b c => need a + need b + need c + 3
  | .and a b | .or a b | .ifThen a b => need a + need b + 1
  | .assign _ e | .compound _ _ e => need e + 1
  | .seq a b => need a + need b + 3
  | .ite c t e => need c + need t + need e + 1

/-! ## the disagreement, concretely -/

/-- `x += x` -/
def progCompound : Compile.Expr := .compound .add 0 (.var 0)

/-- **the two models differ on `x op= e`.** With `x = 'a'`: `Compile.eval (coreSem F)` computes
`x + x = 'aa'` (it uses the one `Sem.binop` for `+` and `+=`), the guide semantics — like the
runtime's `run_compound_assign_op!` — raises a type error. -/
theorem compound_disagrees :
    (Compile.eval (coreSem stubFloatOps) progCompound
        (fun x => if x = 0 then some (Val.str [97]) else none)).map (·.1) matches some (Val.str [97, 97])
    ∧ (Core.eval stubFloatOps 5 (toCore progCompound) { env := [(0, Val.str [97])] }).1 matches .err .type := by
  constructor
  · decide
  · decide

/-! ## small facts -/

theorem lookup_update (x y : Nat) (v : Val) (env : List (Nat × Val)) :
    Core.lookup y (Core.update x v env) = if y = x then some v else Core.lookup y env := by
  induction env with
  | nil =>
    simp only [Core.update, Core.lookup]
  | cons p rest ih =>
    obtain ⟨z, w⟩ := p
    simp only [Core.update]
    by_cases hxz : x = z
    · subst hxz
      simp only [if_true, Core.lookup]
      by_cases hyx : y = x
      · simp [hyx]
      · simp [hyx]
    · simp only [hxz, if_false, Core.lookup, ih]
      by_cases hyz : y = z
      · subst hyz
        have : ¬ y = x := fun h => hxz h.symm
        simp [this]
      · simp [hyz]

theorem EnvRel.set {F : FloatOps} {ρ : Compile.Env (coreSem F)} {s : St} (h : EnvRel ρ s.env)
    (x : Nat) (v : Val) : EnvRel (Compile.Env.set ρ x v) (s.set x v).env := by
  intro y
  simp only [Compile.Env.set, St.set, lookup_update, h y]

theorem EnvRel.empty {F : FloatOps} : EnvRel (F := F) (fun _ => none) ({} : St).env := by
  intro x; rfl

/-- on plain left operands compound assignment and the binary operator coincide -/
theorem opAssignV_plain (F : FloatOps) (op : ArithOp) (a b : Val) (h : plain a = true) :
    opAssignV F op a b = arithV F op a b := by
  cases a <;> cases b <;> cases op <;> first | rfl | simp [plain] at h

theorem arithV_plain (F : FloatOps) (op : ArithOp) (a b r : Val) (h : plain a = true)
    (hr : arithV F op a b = .ok r) : plain r = true := by
  cases a <;> cases b <;> cases op <;> simp [plain] at h <;> simp [arithV] at hr
  all_goals
    simp only [arithNum] at hr
    first
      | (cases hr; rfl)
      | (split at hr <;> cases hr <;> rfl)

theorem binop_plain (F : FloatOps) (op : Compile.BinOp) (a b r : Val) (h : plain a = true)
    (hr : (coreSem F).binop op a b = some r) : plain r = true := by
  simp only [coreSem] at hr
  split at hr
  · cases hc : cmpV F (toCmp op) a b with
    | error e => simp [hc, Except.map, ofExcept] at hr
    | ok c => simp only [hc, Except.map, ofExcept, Option.some.injEq] at hr; subst hr; rfl
  · cases hc : arithV F (toArith op) a b with
    | error e => simp [hc, ofExcept] at hr
    | ok c =>
      simp only [hc, ofExcept, Option.some.injEq] at hr; subst hr
      exact arithV_plain F _ a b c h hc

theorem unop_plain (F : FloatOps) (op : Compile.UnOp) (a r : Val)
    (hr : (coreSem F).unop op a = some r) : plain r = true := by
  cases op with
  | neg =>
    cases a <;> simp [coreSem, negV, ofExcept] at hr
    subst hr; rfl
  | not => simp only [coreSem, Option.some.injEq] at hr; subst hr; rfl

/-! ## `Compile.eval` in bind form -/

section
variable {S : Compile.Sem}

/-- sequencing of `Compile.eval`: `none` propagates -/
def obind (r : Option (S.V × Compile.Env S)) (k : S.V → Compile.Env S → Option (S.V × Compile.Env S)) :
    Option (S.V × Compile.Env S) :=
  match r with
  | some (v, ρ1) => k v ρ1
  | none => none

theorem obind_some {r : Option (S.V × Compile.Env S)} {k : S.V → Compile.Env S → Option (S.V × Compile.Env S)}
    {p : S.V × Compile.Env S} (h : obind r k = some p) : ∃ v1 ρ1, r = some (v1, ρ1) ∧ k v1 ρ1 = some p := by
  cases r with
  | none => simp [obind] at h
  | some q => obtain ⟨v1, ρ1⟩ := q; exact ⟨v1, ρ1, rfl, h⟩

theorem ceval_un (op : Compile.UnOp) (a : Compile.Expr) (ρ : Compile.Env S) :
    Compile.eval S (.un op a) ρ
      = obind (Compile.eval S a ρ) fun v ρ1 => (S.unop op v).map (fun r => (r, ρ1)) := by
  simp only [Compile.eval, obind]
  repeat' (first | rfl | split)

theorem ceval_bin (op : Compile.BinOp) (a b : Compile.Expr) (ρ : Compile.Env S) :
    Compile.eval S (.bin op a b) ρ
      = obind (Compile.eval S a ρ) fun va ρ1 => obind (Compile.eval S b ρ1) fun vb ρ2 =>
          (S.binop op va vb).map (fun r => (r, ρ2)) := by
  simp only [Compile.eval, obind]
  repeat' (first | rfl | split)

theorem ceval_cmp (op : Compile.BinOp) (a b : Compile.Expr) (ρ : Compile.Env S) :
    Compile.eval S (.cmp op a b) ρ
      = obind (Compile.eval S a ρ) fun va ρ1 => obind (Compile.eval S b ρ1) fun vb ρ2 =>
          (S.binop op va vb).map (fun r => (r, ρ2)) := by
  simp only [Compile.eval, obind]
  repeat' (first | rfl | split)

theorem ceval_chain3 (op1 op2 : Compile.BinOp) (a b c : Compile.Expr) (ρ : Compile.Env S) :
    Compile.eval S (.chain3 op1 op2 a b c) ρ
      = obind (Compile.eval S a ρ) fun va ρ1 => obind (Compile.eval S b ρ1) fun vb ρ2 =>
          match S.binop op1 va vb with
          | some r1 =>
            if S.truthy r1 then
              obind (Compile.eval S c ρ2) fun vc ρ3 => (S.binop op2 vb vc).map (fun r => (r, ρ3))
            else some (r1, ρ2)
          | none => none := by
  simp only [Compile.eval, obind]
  repeat' (first | rfl | split)

theorem ceval_and (a b : Compile.Expr) (ρ : Compile.Env S) :
    Compile.eval S (.and a b) ρ
      = obind (Compile.eval S a ρ) fun va ρ1 => if S.truthy va then Compile.eval S b ρ1 else some (va, ρ1) := by
  simp only [Compile.eval, obind]
  repeat' (first | rfl | split)

theorem ceval_or (a b : Compile.Expr) (ρ : Compile.Env S) :
    Compile.eval S (.or a b) ρ
      = obind (Compile.eval S a ρ) fun va ρ1 => if S.truthy va then some (va, ρ1) else Compile.eval S b ρ1 := by
  simp only [Compile.eval, obind]
  repeat' (first | rfl | split)

theorem ceval_assign (x : Nat) (e : Compile.Expr) (ρ : Compile.Env S) :
    Compile.eval S (.assign x e) ρ
      = obind (Compile.eval S e ρ) fun v ρ1 => some (v, Compile.Env.set ρ1 x v) := by
  simp only [Compile.eval, obind]
  repeat' (first | rfl | split)

theorem ceval_compound (op : Compile.BinOp) (x : Nat) (e : Compile.Expr) (ρ : Compile.Env S) :
    Compile.eval S (.compound op x e) ρ
      = match ρ x with
        | some vx => obind (Compile.eval S e ρ) fun vr ρ1 =>
            (S.binop op vx vr).map (fun r => (r, Compile.Env.set ρ1 x r))
        | none => none := by
  simp only [Compile.eval, obind]
  repeat' (first | rfl | split)

theorem ceval_seq (a b : Compile.Expr) (ρ : Compile.Env S) :
    Compile.eval S (.seq a b) ρ = obind (Compile.eval S a ρ) fun _ ρ1 => Compile.eval S b ρ1 := by
  simp only [Compile.eval, obind]
  repeat' (first | rfl | split)

theorem ceval_ite (c t e : Compile.Expr) (ρ : Compile.Env S) :
    Compile.eval S (.ite c t e) ρ
      = obind (Compile.eval S c ρ) fun vc ρ1 =>
          if S.truthy vc then Compile.eval S t ρ1 else Compile.eval S e ρ1 := by
  simp only [Compile.eval, obind]
  repeat' (first | rfl | split)

theorem ceval_ifThen (c t : Compile.Expr) (ρ : Compile.Env S) :
    Compile.eval S (.ifThen c t) ρ
      = obind (Compile.eval S c ρ) fun vc ρ1 =>
          if S.truthy vc then Compile.eval S t ρ1 else some (S.null, ρ1) := by
  simp only [Compile.eval, obind]
  repeat' (first | rfl | split)

end

end KotoVerif.C01
