/-
C05 `compile_wf`, byte level, generic part 1: the sweep of an encoded instruction sequence is its
listing; `annotate` marks a covered listing reachable.
-/
import KotoVerif.Lemmas.C05Codec
import KotoVerif.Lemmas.C05WF

namespace KotoVerif.Bytecode
open KotoVerif.Gen

/-- byte size of an instruction -/
def esize (i : Instr) : Nat := (encode i).length

/-- the listing of an instruction sequence laid out from `pc`, every entry annotated `d` -/
def lay (d : Option Depth) : Nat → List Instr → List Ann
  | _, [] => []
  | pc, i :: is => ⟨pc, esize i, i, d⟩ :: lay d (pc + esize i) is

def esizes (is : List Instr) : Nat := (is.map esize).sum

theorem code_ne_zero (op : Op) (h : op ≠ .NewFrame) : op.code ≠ 0 := by
  cases op <;> simp [Op.code] at * 

theorem esize_ge_two (i : Instr) (h : i.valid = true) : 2 ≤ esize i := by
  have := decode_len (encode i ++ []) i (encode i).length [] (decode_encode i [] h)
  simp [esize] at *
  omega

theorem encode_cons (i : Instr) : encode i = i.op.code :: encodeFields i.fields i.args := rfl

theorem sweep_lay (is : List Instr) (hv : ∀ i ∈ is, i.valid = true) (hf : ∀ i ∈ is, i.op ≠ .Function)
    (hn : ∀ j ∈ is.tail, j.op ≠ .NewFrame) :
    ∀ pc fuel, is.length < fuel → sweep fuel pc (is.flatMap encode) = some (lay none pc is, []) := by
  induction is with
  | nil =>
    intro pc fuel hfu
    cases fuel with
    | zero => simp at hfu
    | succ f => simp [sweep, lay]
  | cons i rest ih =>
    intro pc fuel hfu
    cases fuel with
    | zero => simp at hfu
    | succ f =>
      have hdec := decode_encode i (rest.flatMap encode) (hv i (by simp))
      have hsk : skipsUnit i (rest.flatMap encode) = none := by
        unfold skipsUnit
        rw [if_neg (hf i (by simp))]
        have : ¬ (i.op = .Jump ∧ (rest.flatMap encode).head? = some Op.NewFrame.code) := by
          rintro ⟨_, hh⟩
          cases rest with
          | nil => simp at hh
          | cons j rest' =>
            have hj := hn j (by simp)
            simp [encode_cons, Op.code] at hh
            exact code_ne_zero _ hj hh
        rw [if_neg this]
      have ih' := ih (fun j hj => hv j (by simp [hj])) (fun j hj => hf j (by simp [hj]))
        (fun j hj => hn j (by simp; exact List.mem_of_mem_tail hj)) (pc + esize i) f (by simp at hfu; omega)
      simp only [List.flatMap_cons]
      rw [encode_cons] at hdec ⊢
      simp only [List.cons_append] at hdec ⊢
      simp only [sweep, hdec, hsk]
      simp only [← encode_cons, esize] at ih' ⊢
      rw [ih']
      simp [lay, esize]

def Z : Depth := ⟨0, 0, 0⟩

def succsOf (a : Ann) : List Nat := (succPcs a).getD []

/-- the successors `annotate` records as pending forward edges -/
def fwdTgts (a : Ann) : List Nat :=
  (succsOf a).filter (fun p => a.next < p || (p == a.next && isTerminal a.ins.op))

/-- every instruction is entered by fall-through (`c`) or is the target of a forward edge of an
earlier instruction (`L`): what `annotate` needs to mark the whole listing reachable -/
def CovU : Bool → List Nat → List Ann → Prop
  | _, _, [] => True
  | c, L, a :: rest => (c = true ∨ a.pc ∈ L) ∧ CovU (!isTerminal a.ins.op) (fwdTgts a ++ L) rest

theorem annotate_cov (items : List Ann) :
    ∀ (lo : Nat) (cur : Option Depth) (pending : List (Nat × Depth)) (c : Bool) (L : List Nat),
      pcsFrom lo items = true → (∀ a ∈ items, ∀ d, applyEff a.ins.op d = some d) →
      (∀ e ∈ pending, e.2 = Z) → (cur = if c then some Z else none) →
      (∀ p, lo ≤ p → p ∈ L → ∃ e ∈ pending, e.1 = p) → CovU c L items →
      annotate cur pending items = items.map (fun a => { a with d := some Z }) := by
  induction items with
  | nil => intros; simp [annotate]
  | cons a rest ih =>
    intro lo cur pending c L hs hn hz hcur hcov hc
    simp only [pcsFrom, Bool.and_eq_true, decide_eq_true_eq] at hs
    obtain ⟨hentry, hrest⟩ := hc
    have heff := hn a (by simp) Z
    have hrec : annotate (if isTerminal a.ins.op then none else some Z)
        (List.map (fun x => (x, Z)) (fwdTgts a) ++ List.filter (fun x => x.fst != a.pc) pending) rest
        = rest.map (fun a => { a with d := some Z }) := by
      apply ih (a.pc + 1) _ _ (!isTerminal a.ins.op) (fwdTgts a ++ L) hs.2
        (fun b hb => hn b (by simp [hb]))
      · intro e he
        simp only [List.mem_append, List.mem_map, List.mem_filter] at he
        rcases he with ⟨p, _, rfl⟩ | ⟨he, _⟩
        · rfl
        · exact hz e he
      · cases isTerminal a.ins.op <;> simp
      · intro p hp hpl
        simp only [List.mem_append] at hpl
        rcases hpl with hpt | hpl
        · exact ⟨(p, Z), by simp; exact .inl hpt, rfl⟩
        · obtain ⟨e, he, hek⟩ := hcov p (by omega) hpl
          refine ⟨e, ?_, hek⟩
          simp only [List.mem_append, List.mem_filter]
          right
          refine ⟨he, ?_⟩
          simp [hek]; omega
      · exact hrest
    cases hf : pending.find? (fun x => x.1 == a.pc) with
    | some e =>
      obtain ⟨k, d⟩ := e
      have hd : d = Z := by
        have := hz _ (List.mem_of_find?_eq_some hf)
        simpa using this
      subst hd
      simp only [annotate, hf, heff, List.map_cons]
      congr 1
    | none =>
      have hcz : cur = some Z := by
        rcases hentry with hc1 | hmem
        · simp [hcur, hc1]
        · obtain ⟨e, he, hek⟩ := hcov a.pc hs.1 hmem
          have := List.find?_eq_none.mp hf e he
          simp [hek] at this
      subst hcz
      simp only [annotate, hf, heff, List.map_cons]
      congr 1

end KotoVerif.Bytecode
