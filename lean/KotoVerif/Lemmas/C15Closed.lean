/-
Helper lemmas for C15: the byte-level operations return well-formed UTF-8 on well-formed input
(`utf8_closed`), and the trim specification. Core Lean only.
-/
import KotoVerif.Lemmas.C15Ops

namespace KotoVerif.Str
open KotoVerif.Utf8

theorem valid_head_noncont {c : Nat} {r : Bytes} (h : validUtf8 (c :: r) = true) : isCont c = false := by
  cases hc : isCont c with
  | false => rfl
  | true =>
    rw [validUtf8_iff] at h
    simp [u8run, start_rejects_cont hc] at h

/-- a well-formed string may be cut in front of any non-continuation byte -/
theorem valid_append_noncont {a r : Bytes} {c : Nat} (h : validUtf8 (a ++ c :: r) = true)
    (hc : isCont c = false) : validUtf8 a = true ∧ validUtf8 (c :: r) = true := by
  have hb : isBoundary (a ++ c :: r) a.length = true := by
    by_cases h0 : a.length = 0
    · rw [h0]; exact isBoundary_zero _
    · simp only [isBoundary, h0, if_false]
      have : (a ++ c :: r)[a.length]? = some c := by simp
      rw [this]; simp [hc]
  have := valid_split h hb
  simpa using this

/-- a well-formed string that ends with a well-formed suffix has a well-formed front -/
theorem valid_of_append_right {a b : Bytes} (hab : validUtf8 (a ++ b) = true) (hb : validUtf8 b = true) :
    validUtf8 a = true := by
  cases b with
  | nil => simpa using hab
  | cons c r => exact (valid_append_noncont hab (valid_head_noncont hb)).1

theorem drop_of_findAt {pat s : Bytes} {e : Nat} (h : findAt pat s = some e) :
    s.drop e = pat ++ s.drop (e + pat.length) := by
  have hs := findAt_some h
  have hle := findAt_some_le h
  have hl : (s.take e).length = e := by simp only [List.length_take]; omega
  have h1 := congrArg (List.drop e) hs
  rw [List.append_assoc, List.drop_append, hl, Nat.sub_self, List.drop_zero,
    List.drop_of_length_le (by omega : (s.take e).length ≤ e)] at h1
  simpa using h1

/-- every piece of a split of a well-formed string by a well-formed non-empty pattern is well-formed -/
theorem splitNE_valid {pat : Bytes} (hpv : validUtf8 pat = true) (hp : pat ≠ []) :
    ∀ (fuel : Nat) (rest : Bytes), validUtf8 rest = true → ∀ p ∈ splitNE pat fuel rest, validUtf8 p = true
  | 0, _, _ => by simp [splitNE]
  | fuel + 1, rest, hv => by
    intro p hpm
    simp only [splitNE] at hpm
    cases hf : findAt pat rest with
    | none => rw [hf] at hpm; simp at hpm; subst hpm; exact hv
    | some e =>
      rw [hf] at hpm
      simp only [List.mem_cons] at hpm
      have hd := drop_of_findAt hf
      cases pat with
      | nil => exact absurd rfl hp
      | cons c pr =>
        have hcn : isCont c = false := valid_head_noncont hpv
        have hsplit : rest = rest.take e ++ c :: (pr ++ rest.drop (e + (c :: pr).length)) := by
          have := take_append_drop_eq rest e
          rw [hd] at this
          simpa using this
        have h2 := valid_append_noncont (hsplit ▸ hv) hcn
        rcases hpm with rfl | hpm
        · exact h2.1
        · have hv2 : validUtf8 ((c :: pr) ++ rest.drop (e + (c :: pr).length)) = true := by
            simpa using h2.2
          exact splitNE_valid hpv hp fuel _ (valid_of_append_left hv2 hpv) p hpm

/-- `replace` with a non-empty pattern keeps well-formedness -/
theorem replaceNE_valid {pat to : Bytes} (hpv : validUtf8 pat = true) (hp : pat ≠ []) (htv : validUtf8 to = true) :
    ∀ (fuel : Nat) (rest : Bytes), validUtf8 rest = true → validUtf8 (replaceNE pat to fuel rest) = true
  | 0, _, hv => hv
  | fuel + 1, rest, hv => by
    simp only [replaceNE]
    cases hf : findAt pat rest with
    | none => exact hv
    | some e =>
      simp only
      have hd := drop_of_findAt hf
      cases pat with
      | nil => exact absurd rfl hp
      | cons c pr =>
        have hcn : isCont c = false := valid_head_noncont hpv
        have hsplit : rest = rest.take e ++ c :: (pr ++ rest.drop (e + (c :: pr).length)) := by
          have := take_append_drop_eq rest e
          rw [hd] at this
          simpa using this
        have h2 := valid_append_noncont (hsplit ▸ hv) hcn
        have hv2 : validUtf8 ((c :: pr) ++ rest.drop (e + (c :: pr).length)) = true := by
          simpa using h2.2
        exact valid_append (valid_append h2.1 htv)
          (replaceNE_valid hpv hp htv fuel _ (valid_of_append_left hv2 hpv))

/-! ### lines -/

theorem stripCR_valid {l : Bytes} (h : validUtf8 l = true) : validUtf8 (stripCR l) = true := by
  simp only [stripCR]
  split
  · rename_i hl
    obtain ⟨ys, hys⟩ := List.getLast?_eq_some_iff.mp hl
    rw [hys, List.dropLast_concat]
    rw [hys] at h
    exact (valid_append_noncont h (by decide)).1
  · exact h

theorem linesB_valid : ∀ (n : Nat) (s : Bytes), s.length ≤ n → validUtf8 s = true →
    ∀ l ∈ linesB s [], validUtf8 l = true
  | n, s, hn, hv => by
    rcases split_first_lf s with h | ⟨pre, post, hs, hp⟩
    · rw [linesB_no_lf s [] h]
      intro l hl
      split at hl
      · cases hl
      · simp only [List.nil_append, List.mem_singleton] at hl; subst hl; exact hv
    · subst hs
      rw [linesB_unfold pre post [] hp]
      have h2 := valid_append_noncont hv (by decide : isCont 10 = false)
      have hpost : validUtf8 post = true := valid_of_append_left (a := [10]) (by simpa using h2.2) (by decide)
      intro l hl
      rcases List.mem_cons.mp hl with rfl | hl
      · simpa using stripCR_valid h2.1
      · cases n with
        | zero => simp at hn
        | succ n => exact linesB_valid n post (by simp at hn; omega) hpost l hl

/-! ### trim -/

theorem takeWhile_all {α : Type} (p : α → Bool) : ∀ (l : List α), ∀ x ∈ l.takeWhile p, p x = true
  | [], x, h => by simp at h
  | a :: l, x, h => by
    simp only [List.takeWhile] at h
    split at h
    · rename_i hp
      rcases List.mem_cons.mp h with rfl | h
      · exact hp
      · exact takeWhile_all p l x h
    · simp at h

/-- `trim_start`: the removed front consists of white-space characters only, the rest does not start with
one, and nothing else is changed -/
theorem trimStartB_spec (U : UFacts) (s : Bytes) :
    ∃ ws : List Bytes, (∀ c ∈ ws, U.isWhite c = true) ∧ s = flat ws ++ trimStartB U s ∧
      (∀ c, ((charsOf s).dropWhile U.isWhite).head? = some c → U.isWhite c = false) ∧
      isBoundary s (flat ws).length = true := by
  refine ⟨(charsOf s).takeWhile U.isWhite, takeWhile_all _ _, ?_, ?_, ?_⟩
  · simp only [trimStartB, flat]
    rw [← List.flatten_append, List.takeWhile_append_dropWhile, charsOf_flatten]
  · intro c hc
    have := List.head?_dropWhile_not U.isWhite (charsOf s)
    rw [hc] at this; exact this
  · exact boundary_between_groups (List.takeWhile_append_dropWhile (p := U.isWhite) (l := charsOf s)).symm

theorem trimStartB_valid (U : UFacts) {s : Bytes} (h : validUtf8 s = true) : validUtf8 (trimStartB U s) = true := by
  obtain ⟨ws, _, hs, _, hb⟩ := trimStartB_spec U s
  have := (valid_split h hb).2
  have hd : s.drop (flat ws).length = trimStartB U s := by
    conv => lhs; rw [hs]
    exact List.drop_left
  rw [hd] at this; exact this

/-- `trim_end`: the mirror image -/
theorem trimEndB_spec (U : UFacts) (s : Bytes) :
    ∃ ws : List Bytes, (∀ c ∈ ws, U.isWhite c = true) ∧ s = trimEndB U s ++ flat ws ∧
      isBoundary s (trimEndB U s).length = true := by
  have hsplit : charsOf s = ((charsOf s).reverse.dropWhile U.isWhite).reverse ++
      ((charsOf s).reverse.takeWhile U.isWhite).reverse := by
    rw [← List.reverse_append, List.takeWhile_append_dropWhile, List.reverse_reverse]
  refine ⟨((charsOf s).reverse.takeWhile U.isWhite).reverse, ?_, ?_, ?_⟩
  · intro c hc
    exact takeWhile_all _ _ c (List.mem_reverse.mp hc)
  · simp only [trimEndB, flat]
    rw [← List.flatten_append, ← hsplit, charsOf_flatten]
  · exact boundary_between_groups hsplit

theorem trimEndB_valid (U : UFacts) {s : Bytes} (h : validUtf8 s = true) : validUtf8 (trimEndB U s) = true := by
  obtain ⟨ws, _, hs, hb⟩ := trimEndB_spec U s
  have := (valid_split h hb).1
  have hd : s.take (trimEndB U s).length = trimEndB U s := by
    have h1 := congrArg (List.take (trimEndB U s).length) hs
    rw [List.take_left] at h1
    exact h1
  rw [hd] at this; exact this

theorem trimB_valid (U : UFacts) {s : Bytes} (h : validUtf8 s = true) : validUtf8 (trimB U s) = true :=
  trimEndB_valid U (trimStartB_valid U h)

end KotoVerif.Str

namespace KotoVerif.Str
open KotoVerif.Utf8

/-- `n` copies of the pattern -/
def repPat (n : Nat) (pat : Bytes) : Bytes := (List.replicate n pat).flatten

/-- `trim_start_matches(pattern)`: the input is some copies of the pattern followed by the result, and the
result does not start with the pattern -/
theorem trimStartMatchesB_spec {pat : Bytes} (hp : pat ≠ []) : ∀ (fuel : Nat) (s : Bytes), s.length ≤ fuel →
    ∃ k, s = repPat k pat ++ trimStartMatchesB pat fuel s ∧
      pat.isPrefixOf (trimStartMatchesB pat fuel s) = false
  | 0, s, h => by
    have : s = [] := List.length_eq_zero_iff.mp (by omega)
    subst this
    refine ⟨0, by simp [repPat, trimStartMatchesB], ?_⟩
    simp only [trimStartMatchesB]
    cases pat with
    | nil => exact absurd rfl hp
    | cons c r => rfl
  | fuel + 1, s, h => by
    have hne : pat.isEmpty = false := by cases pat <;> simp_all
    simp only [trimStartMatchesB, hne, Bool.false_eq_true, if_false]
    split
    · rename_i hpre
      have hs := prefix_split hpre
      have hpl : 0 < pat.length := List.length_pos_iff.mpr hp
      have hl : (s.drop pat.length).length ≤ fuel := by
        simp only [List.length_drop]; omega
      obtain ⟨k, hk, hnp⟩ := trimStartMatchesB_spec hp fuel (s.drop pat.length) hl
      refine ⟨k + 1, ?_, hnp⟩
      conv => lhs; rw [hs, hk]
      simp [repPat, List.replicate_succ]
    · rename_i hnp
      exact ⟨0, by simp [repPat], by cases hb : pat.isPrefixOf s <;> simp_all⟩

end KotoVerif.Str
