/-
C01 layer 5, loop layer: what `compileS` does to the compile-time frame (`compileS_frame`), and that
compiling a statement again in the frame it produced emits the same code (`compileS_stable`) — a
loop is compiled once, in the frame at loop entry, and every later iteration runs with the locals
of the frame at the end of the body.
-/
import KotoVerif.Lemmas.C01LoopFrame

namespace KotoVerif.Compile

/-- the core's static side conditions (`safe`: no late read, no read of an assignment target after
a partial write) for every expression of the statement, each in statement / condition position -/
def safeS : Stmt → Bool
  | .expr e => safe [] none e
  | .seq a b => safeS a && safeS b
  | .ite c t e => safe [] none c && safeS t && safeS e
  | .ifThen c t => safe [] none c && safeS t
  | .loop (some (c, _)) b => safe [] none c && safeS b
  | .loop none b => safeS b
  | .brk | .cont => true

/-- frame facts of one `compileS` / `compileCond` call: statement position hands every temporary
back, the temporary base is fixed, committed locals keep their registers, the frame stays
well-formed and no reservation is left pending -/
structure SF (F F' : Frame) : Prop where
  le : FrameLe F F'
  tc : F'.tc = F.tc
  wf : WF F'
  res : ResLe F F'

theorem SF.refl {F : Frame} (hw : WF F) : SF F F := ⟨FrameLe.refl _, rfl, hw, ResLe.refl _⟩

theorem SF.trans {A B C : Frame} (h1 : SF A B) (h2 : SF B C) : SF A C :=
  ⟨h1.le.trans h2.le, by rw [h2.tc, h1.tc], h2.wf, h1.res.trans h2.res⟩

theorem SF.noRes {F F' : Frame} (h : SF F F') (hn : NoRes F) : NoRes F' := hn.of_resLe h.res

theorem compileCond_frame {c : Expr} {F F1 : Frame} {cc : Code} {rc : Reg}
    (h : compileCond c F = some (cc, rc, F1)) (hw : WF F) : SF F F1 := by
  simp only [compileCond, bind, Option.bind_eq_some_iff, Prod.exists, pure, Option.some.injEq, Prod.mk.injEq] at h
  obtain ⟨cc', oc, F0, hc, rc', _, F2, hp, _, _, rfl⟩ := h
  have ff := compile_frame c .any F cc' oc F0 hc hw
  obtain ⟨p1, p2, p3⟩ := popIf_spec hp
  refine ⟨ff.le.trans (FrameLe.of_locals_eq p1 p2), ?_, ff.wf.of_locals_eq p1 p2,
    (compile_resLe c .any F cc' oc F0 hc hw).trans (ResLe.of_locals_eq p1)⟩
  have := ff.tc
  simp only [tempCount] at this
  omega

theorem compileHdr_frame {cond : Option (Expr × Bool)} {F F1 : Frame} {hdr : Option (Code × Reg × Bool)}
    (h : compileHdr cond F = some (hdr, F1)) (hw : WF F) : SF F F1 := by
  cases cond with
  | none => simp [compileHdr] at h; obtain ⟨_, rfl⟩ := h; exact SF.refl hw
  | some p =>
    obtain ⟨c, neg⟩ := p
    simp only [compileHdr, bind, Option.bind_eq_some_iff, Prod.exists, pure, Option.some.injEq, Prod.mk.injEq] at h
    obtain ⟨cc, rc, F2, hc, _, rfl⟩ := h
    exact compileCond_frame hc hw

theorem compileS_frame : ∀ (s : Stmt) (il : Bool) (F : Frame) (code : LCode) (F' : Frame),
    compileS s il F = some (code, F') → WF F → SF F F' := by
  intro s
  induction s with
  | expr e =>
    intro il F code F' h hw
    simp only [compileS, bind, Option.bind_eq_some_iff, Prod.exists, pure, Option.some.injEq, Prod.mk.injEq] at h
    obtain ⟨c, o, F1, hc, _, rfl⟩ := h
    have ff := compile_frame e .none F c o F1 hc hw
    have so : o = ⟨Option.none, false⟩ := ff.shape
    refine ⟨ff.le, ?_, ff.wf, compile_resLe e .none F c o F1 hc hw⟩
    have := ff.tc
    simp [tempCount, so] at this
    exact this
  | seq a b iha ihb =>
    intro il F code F' h hw
    simp only [compileS, bind, Option.bind_eq_some_iff, Prod.exists, pure, Option.some.injEq, Prod.mk.injEq] at h
    obtain ⟨ca, F1, ha, cb, F2, hb, _, rfl⟩ := h
    have fa := iha il F ca F1 ha hw
    exact fa.trans (ihb il F1 cb F2 hb fa.wf)
  | ite c t e iht ihe =>
    intro il F code F' h hw
    simp only [compileS, bind, Option.bind_eq_some_iff, Prod.exists, pure, Option.some.injEq, Prod.mk.injEq] at h
    obtain ⟨cc, rc, F1, hc, ct, F2, ht, ce, F3, he, _, rfl⟩ := h
    have fc := compileCond_frame hc hw
    have ft := iht il F1 ct F2 ht fc.wf
    exact fc.trans (ft.trans (ihe il F2 ce F3 he ft.wf))
  | ifThen c t iht =>
    intro il F code F' h hw
    simp only [compileS, bind, Option.bind_eq_some_iff, Prod.exists, pure, Option.some.injEq, Prod.mk.injEq] at h
    obtain ⟨cc, rc, F1, hc, ct, F2, ht, _, rfl⟩ := h
    have fc := compileCond_frame hc hw
    exact fc.trans (iht il F1 ct F2 ht fc.wf)
  | loop cond b ihb =>
    intro il F code F' h hw
    simp only [compileS, bind, Option.bind_eq_some_iff, Prod.exists, pure, Option.some.injEq, Prod.mk.injEq] at h
    obtain ⟨hdr, F1, hh, cb, F2, hb, _, rfl⟩ := h
    have fh := compileHdr_frame hh hw
    exact fh.trans (ihb true F1 cb F2 hb fh.wf)
  | brk | cont =>
    intro il F code F' h hw
    simp only [compileS] at h
    split at h
    · simp at h; obtain ⟨_, rfl⟩ := h; exact SF.refl hw
    · cases h

/-! ## replaying a statement compilation -/

theorem compileCond_stable {c : Expr} {F F1 : Frame} {cc : Code} {rc : Reg}
    (h : compileCond c F = some (cc, rc, F1)) (hw : WF F)
    (G : Frame) (hwG : WF G) (hnG : NoRes G) (hle : FrameLe F1 G) (htc : G.tc = F.tc) :
    ∃ G1, compileCond c G = some (cc, rc, G1) ∧ SameLoc G G1 ∧ G1.tc = F1.tc := by
  simp only [compileCond, bind, Option.bind_eq_some_iff, Prod.exists, pure, Option.some.injEq, Prod.mk.injEq] at h
  obtain ⟨cc', oc, F0, hc, rc', hrc, F2, hp, rfl, rfl, rfl⟩ := h
  obtain ⟨p1, p2, _⟩ := popIf_spec hp
  obtain ⟨G0, gc, gs0, gt0⟩ := compile_stable c .any F cc' oc F0 hc hw G hwG hnG
    ((FrameLe.of_locals_eq p1 p2).trans hle) htc
  obtain ⟨G2, gp, gs2, gt2⟩ := popIf_sim hp gt0
  exact ⟨G2, by simp [compileCond, gc, hrc, gp], gs0.trans gs2, gt2⟩

theorem compileHdr_stable {cond : Option (Expr × Bool)} {F F1 : Frame} {hdr : Option (Code × Reg × Bool)}
    (h : compileHdr cond F = some (hdr, F1)) (hw : WF F)
    (G : Frame) (hwG : WF G) (hnG : NoRes G) (hle : FrameLe F1 G) (htc : G.tc = F.tc) :
    ∃ G1, compileHdr cond G = some (hdr, G1) ∧ SameLoc G G1 ∧ G1.tc = F1.tc := by
  cases cond with
  | none =>
    simp [compileHdr] at h; obtain ⟨rfl, rfl⟩ := h
    exact ⟨G, by simp [compileHdr], SameLoc.refl _, htc⟩
  | some p =>
    obtain ⟨c, neg⟩ := p
    simp only [compileHdr, bind, Option.bind_eq_some_iff, Prod.exists, pure, Option.some.injEq, Prod.mk.injEq] at h
    obtain ⟨cc, rc, F2, hc, rfl, rfl⟩ := h
    obtain ⟨G1, gc, gs, gt⟩ := compileCond_stable hc hw G hwG hnG hle htc
    exact ⟨G1, by simp [compileHdr, gc], gs, gt⟩

theorem compileS_stable : ∀ (s : Stmt) (il : Bool) (F : Frame) (code : LCode) (F' : Frame),
    compileS s il F = some (code, F') → WF F →
    ∀ G, WF G → NoRes G → FrameLe F' G → G.tc = F.tc →
      ∃ G', compileS s il G = some (code, G') ∧ SameLoc G G' ∧ G'.tc = F'.tc := by
  intro s
  induction s with
  | expr e =>
    intro il F code F' h hw G hwG hnG hle htc
    simp only [compileS, bind, Option.bind_eq_some_iff, Prod.exists, pure, Option.some.injEq, Prod.mk.injEq] at h
    obtain ⟨c, o, F1, hc, rfl, rfl⟩ := h
    obtain ⟨G1, gc, gs, gt⟩ := compile_stable e .none F c o F1 hc hw G hwG hnG hle htc
    exact ⟨G1, by simp [compileS, gc], gs, gt⟩
  | seq a b iha ihb =>
    intro il F code F' h hw G hwG hnG hle htc
    simp only [compileS, bind, Option.bind_eq_some_iff, Prod.exists, pure, Option.some.injEq, Prod.mk.injEq] at h
    obtain ⟨ca, F1, ha, cb, F2, hb, rfl, rfl⟩ := h
    have fa := compileS_frame a il F ca F1 ha hw
    have fb := compileS_frame b il F1 cb F2 hb fa.wf
    obtain ⟨G1, ga, gs1, gt1⟩ := iha il F ca F1 ha hw G hwG hnG (fb.le.trans hle) htc
    obtain ⟨w1, n1, l1⟩ := stable_ctx hwG hnG hle (FrameLe.refl _) gs1
    obtain ⟨G2, gb, gs2, gt2⟩ := ihb il F1 cb F2 hb fa.wf G1 w1 n1 l1 gt1
    exact ⟨G2, by simp [compileS, ga, gb], gs1.trans gs2, gt2⟩
  | ite c t e iht ihe =>
    intro il F code F' h hw G hwG hnG hle htc
    simp only [compileS, bind, Option.bind_eq_some_iff, Prod.exists, pure, Option.some.injEq, Prod.mk.injEq] at h
    obtain ⟨cc, rc, F1, hc, ct, F2, ht, ce, F3, he, rfl, rfl⟩ := h
    have fc := compileCond_frame hc hw
    have ft := compileS_frame t il F1 ct F2 ht fc.wf
    have fe := compileS_frame e il F2 ce F3 he ft.wf
    obtain ⟨G1, gc, gs1, gt1⟩ := compileCond_stable hc hw G hwG hnG ((ft.le.trans fe.le).trans hle) htc
    obtain ⟨w1, n1, l1⟩ := stable_ctx hwG hnG hle fe.le gs1
    obtain ⟨G2, gt, gs2, gt2⟩ := iht il F1 ct F2 ht fc.wf G1 w1 n1 l1 gt1
    obtain ⟨w2, n2, l2⟩ := stable_ctx hwG hnG hle (FrameLe.refl _) (gs1.trans gs2)
    obtain ⟨G3, ge, gs3, gt3⟩ := ihe il F2 ce F3 he ft.wf G2 w2 n2 l2 gt2
    exact ⟨G3, by simp [compileS, gc, gt, ge], gs1.trans (gs2.trans gs3), gt3⟩
  | ifThen c t iht =>
    intro il F code F' h hw G hwG hnG hle htc
    simp only [compileS, bind, Option.bind_eq_some_iff, Prod.exists, pure, Option.some.injEq, Prod.mk.injEq] at h
    obtain ⟨cc, rc, F1, hc, ct, F2, ht, rfl, rfl⟩ := h
    have fc := compileCond_frame hc hw
    have ft := compileS_frame t il F1 ct F2 ht fc.wf
    obtain ⟨G1, gc, gs1, gt1⟩ := compileCond_stable hc hw G hwG hnG (ft.le.trans hle) htc
    obtain ⟨w1, n1, l1⟩ := stable_ctx hwG hnG hle (FrameLe.refl _) gs1
    obtain ⟨G2, gt, gs2, gt2⟩ := iht il F1 ct F2 ht fc.wf G1 w1 n1 l1 gt1
    exact ⟨G2, by simp [compileS, gc, gt], gs1.trans gs2, gt2⟩
  | loop cond b ihb =>
    intro il F code F' h hw G hwG hnG hle htc
    simp only [compileS, bind, Option.bind_eq_some_iff, Prod.exists, pure, Option.some.injEq, Prod.mk.injEq] at h
    obtain ⟨hdr, F1, hh, cb, F2, hb, rfl, rfl⟩ := h
    have fh := compileHdr_frame hh hw
    have fb := compileS_frame b true F1 cb F2 hb fh.wf
    obtain ⟨G1, gh, gs1, gt1⟩ := compileHdr_stable hh hw G hwG hnG (fb.le.trans hle) htc
    obtain ⟨w1, n1, l1⟩ := stable_ctx hwG hnG hle (FrameLe.refl _) gs1
    obtain ⟨G2, gb, gs2, gt2⟩ := ihb true F1 cb F2 hb fh.wf G1 w1 n1 l1 gt1
    exact ⟨G2, by simp [compileS, gh, gb], gs1.trans gs2, gt2⟩
  | brk | cont =>
    intro il F code F' h hw G hwG hnG hle htc
    simp only [compileS] at h
    split at h
    · rename_i hil
      simp at h; obtain ⟨rfl, rfl⟩ := h
      exact ⟨G, by simp [compileS, hil], SameLoc.refl _, htc⟩
    · cases h

/-- a loop, recompiled in the frame at the end of its body: the same code, the same locals -/
theorem compileS_again {s : Stmt} {il : Bool} {F F' : Frame} {code : LCode}
    (h : compileS s il F = some (code, F')) (hw : WF F) (hn : NoRes F) :
    ∃ G', compileS s il F' = some (code, G') ∧ SameLoc F' G' ∧ G'.tc = F'.tc := by
  have sf := compileS_frame s il F code F' h hw
  exact compileS_stable s il F code F' h hw F' sf.wf (sf.noRes hn) (FrameLe.refl _) sf.tc

/-! ## `temporaries_used_in_frame` only grows -/

theorem compileCond_tmax {c : Expr} {F F1 : Frame} {cc : Code} {rc : Reg}
    (h : compileCond c F = some (cc, rc, F1)) : TmLe F F1 := by
  simp only [compileCond, bind, Option.bind_eq_some_iff, Prod.exists, pure, Option.some.injEq, Prod.mk.injEq] at h
  obtain ⟨cc', oc, F0, hc, rc', _, F2, hp, _, _, rfl⟩ := h
  exact (compile_tmax _ _ _ _ _ _ hc).trans (popIf_tmax hp)

theorem compileHdr_tmax {cond : Option (Expr × Bool)} {F F1 : Frame} {hdr : Option (Code × Reg × Bool)}
    (h : compileHdr cond F = some (hdr, F1)) : TmLe F F1 := by
  cases cond with
  | none => simp [compileHdr] at h; obtain ⟨_, rfl⟩ := h; exact TmLe.refl _
  | some p =>
    obtain ⟨c, neg⟩ := p
    simp only [compileHdr, bind, Option.bind_eq_some_iff, Prod.exists, pure, Option.some.injEq, Prod.mk.injEq] at h
    obtain ⟨cc, rc, F2, hc, _, rfl⟩ := h
    exact compileCond_tmax hc

theorem compileS_tmax : ∀ (s : Stmt) (il : Bool) (F : Frame) (code : LCode) (F' : Frame),
    compileS s il F = some (code, F') → TmLe F F' := by
  intro s
  induction s with
  | expr e =>
    intro il F code F' h
    simp only [compileS, bind, Option.bind_eq_some_iff, Prod.exists, pure, Option.some.injEq, Prod.mk.injEq] at h
    obtain ⟨c, o, F1, hc, _, rfl⟩ := h
    exact compile_tmax _ _ _ _ _ _ hc
  | seq a b iha ihb =>
    intro il F code F' h
    simp only [compileS, bind, Option.bind_eq_some_iff, Prod.exists, pure, Option.some.injEq, Prod.mk.injEq] at h
    obtain ⟨ca, F1, ha, cb, F2, hb, _, rfl⟩ := h
    exact (iha _ _ _ _ ha).trans (ihb _ _ _ _ hb)
  | ite c t e iht ihe =>
    intro il F code F' h
    simp only [compileS, bind, Option.bind_eq_some_iff, Prod.exists, pure, Option.some.injEq, Prod.mk.injEq] at h
    obtain ⟨cc, rc, F1, hc, ct, F2, ht, ce, F3, he, _, rfl⟩ := h
    exact (compileCond_tmax hc).trans ((iht _ _ _ _ ht).trans (ihe _ _ _ _ he))
  | ifThen c t iht =>
    intro il F code F' h
    simp only [compileS, bind, Option.bind_eq_some_iff, Prod.exists, pure, Option.some.injEq, Prod.mk.injEq] at h
    obtain ⟨cc, rc, F1, hc, ct, F2, ht, _, rfl⟩ := h
    exact (compileCond_tmax hc).trans (iht _ _ _ _ ht)
  | loop cond b ihb =>
    intro il F code F' h
    simp only [compileS, bind, Option.bind_eq_some_iff, Prod.exists, pure, Option.some.injEq, Prod.mk.injEq] at h
    obtain ⟨hdr, F1, hh, cb, F2, hb, _, rfl⟩ := h
    exact (compileHdr_tmax hh).trans (ihb _ _ _ _ hb)
  | brk | cont =>
    intro il F code F' h
    simp only [compileS] at h
    split at h
    · simp at h; obtain ⟨_, rfl⟩ := h; exact TmLe.refl _
    · cases h

end KotoVerif.Compile
