/-
Helper lemmas for C05 (and C01): the invariant of the register allocator model `Model/Frame.lean`.
-/
import KotoVerif.Model.Frame

namespace KotoVerif.Frame

/-- `tb + n - 1, …, tb + 1, tb`: the temporaries in the order of `register_stack`, top first. -/
def tempsDesc (tb : Nat) : Nat → List Nat
  | 0 => []
  | n + 1 => (tb + n) :: tempsDesc tb n

theorem tempsDesc_length (tb n : Nat) : (tempsDesc tb n).length = n := by
  induction n with
  | zero => rfl
  | succ n ih => simp [tempsDesc, ih]

theorem tempsDesc_get (tb n k : Nat) (h : k < n) : (tempsDesc tb n)[k]? = some (tb + n - 1 - k) := by
  induction n generalizing k with
  | zero => omega
  | succ n ih =>
    cases k with
    | zero => simp [tempsDesc]
    | succ k =>
      simp only [tempsDesc, List.getElem?_cons_succ]
      rw [ih k (by omega)]
      congr 1; omega

/-- The allocator invariant. -/
structure Inv (s : Frame) : Prop where
  /-- the live temporaries are exactly `tb … tb+tc-1`, most recent on top -/
  stack : s.stack = tempsDesc s.tb s.tc
  /-- no temporary beyond register 254 -/
  bound : s.tb + s.tc ≤ 255
  /-- the high-water mark covers the live temporaries and fits a `u8` -/
  used_ge : s.tc ≤ s.used
  used_le : s.tb + s.used ≤ 255
  /-- local registers lie below the temporaries -/
  locals : s.locals.length ≤ s.tb

/-- What every operation preserves, whether it succeeds or fails. -/
structure Weak (s s' : Frame) : Prop where
  tb : s'.tb = s.tb
  used : s.used ≤ s'.used
  fits : s'.tb + s'.used ≤ 255

theorem Weak.refl {s : Frame} (h : Inv s) : Weak s s := ⟨rfl, Nat.le_refl _, h.used_le⟩

theorem Weak.trans {a b c : Frame} (h1 : Weak a b) (h2 : Weak b c) : Weak a c :=
  ⟨h2.tb.trans h1.tb, Nat.le_trans h1.used h2.used, h2.fits⟩

/-! ### temporaries -/

theorem push_spec (s : Frame) (h : Inv s) :
    (s.tb + s.tc = 255 ∧ s.pushRegister = .err s .stackOverflow)
    ∨ (s.tb + s.tc < 255 ∧ ∃ s', s.pushRegister = .ok s' (s.tb + s.tc) ∧ Inv s' ∧ Weak s s'
        ∧ s'.tc = s.tc + 1 ∧ s'.locals = s.locals) := by
  have hb := h.bound
  by_cases he : s.tb + s.tc = 255
  · left
    refine ⟨he, ?_⟩
    simp [Frame.pushRegister, u8Max, he]
  · right
    have heq : s.pushRegister =
        .ok { s with tc := s.tc + 1, used := max s.used (s.tc + 1), stack := (s.tb + s.tc) :: s.stack }
          (s.tb + s.tc) := by
      have h1 : ¬ (s.tb + s.tc > 255) := by omega
      simp [Frame.pushRegister, u8Max, h1, he]
    refine ⟨by omega, _, heq, ?_, ?_, rfl, rfl⟩
    · exact ⟨by simp [tempsDesc, h.stack], by simp; omega, by simp; omega,
        by have := h.used_le; simp; omega, h.locals⟩
    · exact ⟨rfl, by simp; omega, by have := h.used_le; simp; omega⟩

theorem pop_spec (s : Frame) (h : Inv s) :
    (s.tc = 0 ∧ s.popRegister = .err s .emptyRegisterStack)
    ∨ (0 < s.tc ∧ ∃ s', s.popRegister = .ok s' (s.tb + s.tc - 1) ∧ Inv s' ∧ Weak s s'
        ∧ s'.tc = s.tc - 1 ∧ s'.used = s.used ∧ s'.locals = s.locals) := by
  have hs := h.stack
  cases htc : s.tc with
  | zero =>
    left
    rw [htc] at hs
    simp [Frame.popRegister, hs, tempsDesc]
  | succ n =>
    right
    rw [htc] at hs
    have heq : s.popRegister = .ok { s with stack := tempsDesc s.tb n, tc := n } (s.tb + (n + 1) - 1) := by
      simp only [Frame.popRegister, hs, tempsDesc]
      rw [if_pos (by omega), if_neg (by omega)]
      simp [htc]
    refine ⟨by omega, _, heq, ?_, ?_, by simp, rfl, rfl⟩
    · have hb := h.bound; have hu := h.used_ge; have hl := h.used_le
      exact ⟨by simp, by simp; omega, by simp; omega, by simpa using hl, h.locals⟩
    · exact ⟨rfl, Nat.le_refl _, h.used_le⟩

theorem peek_spec (s : Frame) (h : Inv s) (n : Nat) :
    (n < s.tc ∧ s.peekRegister n = .ok s (s.tb + s.tc - 1 - n))
    ∨ (s.tc ≤ n ∧ s.peekRegister n = .panic) := by
  have hl : s.stack.length = s.tc := by rw [h.stack, tempsDesc_length]
  by_cases hn : n < s.tc
  · left
    refine ⟨hn, ?_⟩
    simp only [Frame.peekRegister, hl]
    rw [if_neg (by omega), h.stack, tempsDesc_get _ _ _ hn]
  · right
    refine ⟨by omega, ?_⟩
    simp only [Frame.peekRegister, hl]
    rw [if_pos (by omega)]

theorem truncate_spec (fuel : Nat) (s : Frame) (h : Inv s) (count : Nat) :
    ∃ s', Frame.truncateFuel fuel s count = .ok s' () ∧ Inv s' ∧ Weak s s' ∧ s'.tc ≤ s.tc
      ∧ s'.locals = s.locals := by
  induction fuel generalizing s with
  | zero => exact ⟨s, rfl, h, Weak.refl h, Nat.le_refl _, rfl⟩
  | succ fuel ih =>
    have hl : s.stack.length = s.tc := by rw [h.stack, tempsDesc_length]
    simp only [Frame.truncateFuel]
    by_cases hc : s.stack.length > count
    · rw [if_pos hc]
      rcases pop_spec s h with ⟨h0, _⟩ | ⟨_, s1, hp, hi, hw, htc, _, hloc⟩
      · omega
      · rw [hp]
        obtain ⟨s2, h2, hi2, hw2, htc2, hloc2⟩ := ih s1 hi
        exact ⟨s2, h2, hi2, hw.trans hw2, by omega, hloc2.trans hloc⟩
    · rw [if_neg hc]
      exact ⟨s, rfl, h, Weak.refl h, Nat.le_refl _, rfl⟩

/-! ### locals -/

theorem lookupLocal_bound (id : Nat) (ls : List Local) (i r : Nat)
    (h : lookupLocal id ls i = .assigned r ∨ lookupLocal id ls i = .reserved r) :
    ∃ j, j < ls.length ∧ r = asU8 (i + j) := by
  induction ls generalizing i with
  | nil => simp [lookupLocal] at h
  | cons l ls ih =>
    cases l with
    | assigned a =>
      simp only [lookupLocal] at h
      split at h
      · rcases h with h | h
        · simp at h; exact ⟨0, by simp, by simp [h]⟩
        · simp at h
      · obtain ⟨j, hj, hr⟩ := ih (i + 1) h
        exact ⟨j + 1, by simp; omega, by rw [hr]; congr 1; omega⟩
    | reserved a ops =>
      simp only [lookupLocal] at h
      split at h
      · rcases h with h | h
        · simp at h
        · simp at h; exact ⟨0, by simp, by simp [h]⟩
      · obtain ⟨j, hj, hr⟩ := ih (i + 1) h
        exact ⟨j + 1, by simp; omega, by rw [hr]; congr 1; omega⟩
    | allocated =>
      simp only [lookupLocal] at h
      obtain ⟨j, hj, hr⟩ := ih (i + 1) h
      exact ⟨j + 1, by simp; omega, by rw [hr]; congr 1; omega⟩

theorem lookup_lt_tb (s : Frame) (h : Inv s) (id r : Nat)
    (hl : s.getAssignedOrReserved id = .assigned r ∨ s.getAssignedOrReserved id = .reserved r) :
    r < s.tb := by
  obtain ⟨j, hj, hr⟩ := lookupLocal_bound id s.locals 0 r hl
  have := h.locals; have := h.bound
  simp [asU8] at hr
  omega

/-- Frames that differ only in `locals`, of the same length. -/
structure SameShape (s s' : Frame) : Prop where
  stack : s'.stack = s.stack
  tb : s'.tb = s.tb
  tc : s'.tc = s.tc
  used : s'.used = s.used
  len : s'.locals.length = s.locals.length

theorem SameShape.inv {s s' : Frame} (h : Inv s) (e : SameShape s s') : Inv s' :=
  ⟨by rw [e.stack, e.tb, e.tc]; exact h.stack, by rw [e.tb, e.tc]; exact h.bound,
   by rw [e.tc, e.used]; exact h.used_ge, by rw [e.tb, e.used]; exact h.used_le,
   by rw [e.len, e.tb]; exact h.locals⟩

theorem SameShape.weak {s s' : Frame} (h : Inv s) (e : SameShape s s') : Weak s s' :=
  ⟨e.tb, by rw [e.used]; exact Nat.le_refl _, by rw [e.tb, e.used]; exact h.used_le⟩

theorem pushLocal_spec (s : Frame) (h : Inv s) (l : Local) :
    (s.locals.length < s.tb ∧ ∃ s', s.pushLocal l = .ok s' s.locals.length ∧ Inv s' ∧ Weak s s'
        ∧ s'.tc = s.tc)
    ∨ (s.tb ≤ s.locals.length ∧ ∃ s', s.pushLocal l = .err s' .localRegisterOverflow ∧ Weak s s') := by
  have hb := h.bound
  by_cases hlt : s.locals.length < s.tb
  · left
    have hu : asU8 s.locals.length = s.locals.length := by simp only [asU8]; omega
    have heq : s.pushLocal l = .ok { s with locals := s.locals ++ [l] } s.locals.length := by
      simp only [Frame.pushLocal]
      rw [if_pos hlt, hu]
    refine ⟨hlt, _, heq, ?_, ?_, rfl⟩
    · exact ⟨h.stack, h.bound, h.used_ge, h.used_le, by simp; omega⟩
    · exact ⟨rfl, Nat.le_refl _, h.used_le⟩
  · right
    have heq : s.pushLocal l = .err { s with locals := s.locals ++ [l] } .localRegisterOverflow := by
      simp only [Frame.pushLocal]
      rw [if_neg hlt]
    exact ⟨by omega, _, heq, ⟨rfl, Nat.le_refl _, h.used_le⟩⟩

theorem commitLocal_spec (s : Frame) (r : Nat) :
    (∃ s' ops, s.commitLocal r = .ok s' ops ∧ SameShape s s')
    ∨ s.commitLocal r = .err s (.unreservedRegister r) := by
  unfold Frame.commitLocal
  split
  · exact .inl ⟨s, [], rfl, ⟨rfl, rfl, rfl, rfl, rfl⟩⟩
  · exact .inl ⟨_, _, rfl, ⟨rfl, rfl, rfl, rfl, by simp⟩⟩
  · exact .inr rfl

theorem deferOp_spec (s : Frame) (r : Nat) (bytes : List Nat) :
    (∃ s', s.deferOp r bytes = .ok s' () ∧ SameShape s s')
    ∨ s.deferOp r bytes = .err s (.unreservedRegister r) := by
  unfold Frame.deferOp
  split
  · exact .inl ⟨_, rfl, ⟨rfl, rfl, rfl, rfl, by simp⟩⟩
  · exact .inr rfl

theorem reserve_spec (s : Frame) (h : Inv s) (id : Nat) :
    (∃ s' r, s.reserveLocal id = .ok s' r ∧ Inv s' ∧ Weak s s' ∧ r < s'.tb)
    ∨ (∃ s', s.reserveLocal id = .err s' .localRegisterOverflow ∧ Weak s s'
        ∧ s.tb ≤ s.locals.length) := by
  unfold Frame.reserveLocal
  cases hl : s.getAssignedOrReserved id with
  | assigned r => exact .inl ⟨s, r, rfl, h, Weak.refl h, lookup_lt_tb s h id r (.inl hl)⟩
  | reserved r => exact .inl ⟨s, r, rfl, h, Weak.refl h, lookup_lt_tb s h id r (.inr hl)⟩
  | unassigned =>
    rcases pushLocal_spec s h (.reserved id []) with ⟨hlt, s', he, hi, hw, _⟩ | ⟨hge, s', he, hw⟩
    · exact .inl ⟨s', _, he, hi, hw, by rw [hw.tb]; exact hlt⟩
    · exact .inr ⟨s', he, hw, hge⟩

theorem assign_spec (s : Frame) (h : Inv s) (id : Nat) :
    (∃ s' r, s.assignLocal id = .ok s' r ∧ Inv s' ∧ Weak s s' ∧ r < s'.tb)
    ∨ (∃ s' e, s.assignLocal id = .err s' e ∧ Weak s s') := by
  unfold Frame.assignLocal
  cases hl : s.getAssignedOrReserved id with
  | assigned r => exact .inl ⟨s, r, rfl, h, Weak.refl h, lookup_lt_tb s h id r (.inl hl)⟩
  | reserved r =>
    have hr := lookup_lt_tb s h id r (.inr hl)
    rcases commitLocal_spec s r with ⟨s', ops, he, hs⟩ | he
    · simp only [he]
      by_cases ho : ops.isEmpty = true
      · rw [if_pos ho]
        exact .inl ⟨s', r, rfl, hs.inv h, hs.weak h, by rw [hs.tb]; exact hr⟩
      · rw [if_neg ho]
        exact .inr ⟨s', _, rfl, hs.weak h⟩
    · simp only [he]
      exact .inr ⟨s, _, rfl, Weak.refl h⟩
  | unassigned =>
    rcases pushLocal_spec s h (.assigned id) with ⟨hlt, s', he, hi, hw, _⟩ | ⟨hge, s', he, hw⟩
    · exact .inl ⟨s', _, he, hi, hw, by rw [hw.tb]; exact hlt⟩
    · exact .inr ⟨s', _, he, hw⟩

theorem addExported_inv (s : Frame) (h : Inv s) (id : Nat) :
    Inv (s.addExported id) ∧ Weak s (s.addExported id) := by
  unfold Frame.addExported
  split
  · exact ⟨h, Weak.refl h⟩
  · exact ⟨⟨h.stack, h.bound, h.used_ge, h.used_le, h.locals⟩, ⟨rfl, Nat.le_refl _, h.used_le⟩⟩

/-- What one operation on a state satisfying the invariant can produce. -/
def StepOk (s : Frame) (op : FOp) : Option Frame × Obs → Prop
  | (some s', .reg r) => Inv s' ∧ Weak s s' ∧ r < s'.tb + s'.used
  | (some s', .unit) => Inv s' ∧ Weak s s'
  | (some s', .ops _) => Inv s' ∧ Weak s s'
  | (some s', .error _) => Weak s s'
  | (some _, .panic) => False
  | (none, o) => o = .panic ∧ ∃ n, op = .peek n ∧ s.tc ≤ n

theorem step_spec (s : Frame) (h : Inv s) (op : FOp) : StepOk s op (s.step op) := by
  cases op with
  | push =>
    rcases push_spec s h with ⟨_, he⟩ | ⟨_, s', he, hi, hw, htc, _⟩
    · simp only [Frame.step, he, liftReg, StepOk]; exact Weak.refl h
    · simp only [Frame.step, he, liftReg, StepOk]
      have := hi.used_ge
      exact ⟨hi, hw, by rw [hw.tb]; omega⟩
  | pop =>
    rcases pop_spec s h with ⟨_, he⟩ | ⟨hpos, s', he, hi, hw, htc, hu, _⟩
    · simp only [Frame.step, he, liftReg, StepOk]; exact Weak.refl h
    · simp only [Frame.step, he, liftReg, StepOk]
      have := h.used_ge
      exact ⟨hi, hw, by rw [hw.tb, hu]; omega⟩
  | peek n =>
    rcases peek_spec s h n with ⟨hn, he⟩ | ⟨hn, he⟩
    · simp only [Frame.step, he, liftReg, StepOk]
      have := h.used_ge
      exact ⟨h, Weak.refl h, by omega⟩
    · simpa [Frame.step, he, liftReg, StepOk] using hn
  | truncate c =>
    obtain ⟨s', he, hi, hw, _, _⟩ := truncate_spec s.stack.length s h c
    simp only [Frame.step, Frame.truncate, he, liftUnit, StepOk]
    exact ⟨hi, hw⟩
  | assign id =>
    rcases assign_spec s h id with ⟨s', r, he, hi, hw, hr⟩ | ⟨s', e, he, hw⟩
    · simp only [Frame.step, he, liftReg, StepOk]; exact ⟨hi, hw, by omega⟩
    · simp only [Frame.step, he, liftReg, StepOk]; exact hw
  | reserve id =>
    rcases reserve_spec s h id with ⟨s', r, he, hi, hw, hr⟩ | ⟨s', he, hw, _⟩
    · simp only [Frame.step, he, liftReg, StepOk]; exact ⟨hi, hw, by omega⟩
    · simp only [Frame.step, he, liftReg, StepOk]; exact hw
  | commit r =>
    rcases commitLocal_spec s r with ⟨s', ops, he, hs⟩ | he
    · simp only [Frame.step, he, StepOk]; exact ⟨hs.inv h, hs.weak h⟩
    · simp only [Frame.step, he, StepOk]; exact Weak.refl h
  | defer r bytes =>
    rcases deferOp_spec s r bytes with ⟨s', he, hs⟩ | he
    · simp only [Frame.step, he, liftUnit, StepOk]; exact ⟨hs.inv h, hs.weak h⟩
    · simp only [Frame.step, he, liftUnit, StepOk]; exact Weak.refl h
  | export_ id =>
    simp only [Frame.step, StepOk]
    exact addExported_inv s h id

/-- An observation that ends the history: an error or a panic. -/
def Obs.isFailure : Obs → Bool
  | .error _ | .panic => true
  | _ => false

theorem run_spec (s : Frame) (h : Inv s) (ops : List FOp) :
    Weak s (s.run ops).1
    ∧ (∀ r, Obs.reg r ∈ (s.run ops).2 → r < (s.run ops).1.tb + (s.run ops).1.used)
    ∧ ((∀ o ∈ (s.run ops).2, o.isFailure = false) → Inv (s.run ops).1) := by
  induction ops generalizing s with
  | nil => simp [Frame.run]; exact ⟨Weak.refl h, h⟩
  | cons op ops ih =>
    have hs := step_spec s h op
    cases hres : s.step op with
    | mk os o =>
      rw [hres] at hs
      cases os with
      | none =>
        simp only [Frame.run, hres]
        obtain ⟨rfl, _⟩ := hs
        refine ⟨Weak.refl h, ?_, ?_⟩
        · intro r hr; simp at hr
        · intro hf; simp [Obs.isFailure] at hf
      | some s' =>
        cases o with
        | error e =>
          simp only [Frame.run, hres]
          refine ⟨hs, ?_, ?_⟩
          · intro r hr; simp at hr
          · intro hf; simp [Obs.isFailure] at hf
        | panic => exact absurd hs (by simp [StepOk])
        | reg r0 =>
          obtain ⟨hi, hw, hr0⟩ := hs
          obtain ⟨w2, r2, i2⟩ := ih s' hi
          simp only [Frame.run, hres]
          refine ⟨hw.trans w2, ?_, ?_⟩
          · intro r hr
            simp at hr
            rcases hr with rfl | hr
            · have := w2.tb; have := w2.used; omega
            · exact r2 r hr
          · intro hf
            exact i2 (fun o ho => hf o (by simp [ho]))
        | unit =>
          obtain ⟨hi, hw⟩ := hs
          obtain ⟨w2, r2, i2⟩ := ih s' hi
          simp only [Frame.run, hres]
          refine ⟨hw.trans w2, ?_, ?_⟩
          · intro r hr
            simp at hr
            exact r2 r hr
          · intro hf
            exact i2 (fun o ho => hf o (by simp [ho]))
        | ops l =>
          obtain ⟨hi, hw⟩ := hs
          obtain ⟨w2, r2, i2⟩ := ih s' hi
          simp only [Frame.run, hres]
          refine ⟨hw.trans w2, ?_, ?_⟩
          · intro r hr
            simp at hr
            exact r2 r hr
          · intro hf
            exact i2 (fun o ho => hf o (by simp [ho]))

theorem initialLocals_length (args : List Arg) (caps : List Nat) :
    (initialLocals args caps).length = 1 + args.length + caps.length := by
  induction args with
  | nil => simp [initialLocals]; omega
  | cons a as ih =>
    have : (initialLocals (a :: as) caps).length = (initialLocals as caps).length + 1 := by
      cases a <;> simp [initialLocals, List.filterMap_cons] <;> omega
    rw [this, ih]; simp; omega

/-- `Frame::new` establishes the invariant when the named arguments are counted in `local_count`
(the parser's `local_count` includes every named argument) and the lists fit a `u8`. -/
theorem new_inv (lc : Nat) (args : List Arg) (caps : List Nat) (s : Frame)
    (h : Frame.new lc args caps = .ok s ())
    (hargs : args.length ≤ lc + placeholders args) (hc : caps.length < 256) (ha : args.length < 256) :
    Inv s ∧ s.tb = baseSum lc args caps ∧ s.tc = 0 ∧ s.used = 0 := by
  have hp : placeholders args ≤ args.length := by
    unfold placeholders; exact List.length_filter_le _ _
  have hcm : asU8 caps.length = caps.length := by simp only [asU8]; omega
  have hpm : asU8 (placeholders args) = placeholders args := by simp only [asU8]; omega
  have hl := initialLocals_length args caps
  unfold Frame.new at h
  simp only [hcm, hpm, u8Max] at h
  split at h
  · simp at h
  · split at h
    · simp at h
    · split at h
      · simp at h
      · simp at h
        subst h
        refine ⟨⟨rfl, by simp; omega, Nat.le_refl _, by simp; omega, ?_⟩, by simp [baseSum], rfl, rfl⟩
        simp only [hl]
        omega

end KotoVerif.Frame
