/-
C05 `compile_wf`, statement layer, part 7: main blocks with loops compiled by `compileProg` are
accepted by `wfChunk`.
-/
import KotoVerif.Lemmas.C05CWLoop6

set_option linter.unusedSimpArgs false

namespace KotoVerif.Compile
open KotoVerif.Gen KotoVerif.Bytecode

/-- **compile_wf for main blocks with loops**: statements of the fragment (expression statements,
blocks, `if` / `if-else`, `while` / `until`; no `break` / `continue` / endless `loop`) followed by a
final expression, compiled by `compileProg` and encoded with `encodeProg`, are accepted by the
verifier. -/
theorem wfChunk_compileProg (s : Stmt) (e : Expr) (lc : Nat) (flat : List LFlat) (o : Out) (F2 : Frame)
    (cidx : Int → Nat) (consts : List CKind)
    (h : compileProg s e lc = some (flat, o, F2)) (hs : SimpleS s) (hlc : lc ≤ 254)
    (hsz : sizeOfL cidx flat ≤ 65535)
    (hc : ∀ n, cidx n < 4294967296 ∧ consts[cidx n]? = some .int) :
    ∃ r, o.reg = some r ∧ wfChunk (encodeProg cidx F2.registersUsed flat r) consts = true := by
  simp only [compileProg, bind, Option.bind_eq_some_iff, Prod.exists, pure, Option.some.injEq, Prod.mk.injEq] at h
  obtain ⟨cs, F1, hcs, ce, o', F2', hce, rfl, rfl, rfl⟩ := h
  have hw0 := mainFrame_wf' lc
  have ht0 : T ({ tb := 1 + lc } : Frame) := by simp [T]
  have hu0 : U ({ tb := 1 + lc } : Frame) := by simp only [U]; omega
  obtain ⟨fs, rcs, scs⟩ := compileS_facts s false _ cs F1 hcs hw0 ht0
  obtain ⟨m2, t2, cbe⟩ := compile_regs e .any F1 ce o' F2' hce fs.wf fs.t noFix_any
  have ff := compile_frame e .any F1 ce o' F2' hce fs.wf
  have hreg : ∃ r, o'.reg = some r := by
    rcases ff.shape with hsh | ⟨_, _, r, _, hr, _⟩
    · exact ⟨_, by rw [hsh]⟩
    · exact ⟨r, hr⟩
  obtain ⟨r, hr⟩ := hreg
  have hrlt := out_bound ff t2 noFix_any r hr
  have hu2 : U F2' := compile_fits e .any F1 ce o' F2' hce (fs.fits hu0)
  have hsimple : Simple (.seq cs (.base ce)) := ⟨scs hs, trivial⟩
  have hflat : flattenL cs ++ (flatten ce).map LFlat.ofFlat = flatS (.seq cs (.base ce)) := by
    rw [flatS_seq cs (.base ce) hsimple]
    rfl
  have hcbl : CBL (.seq cs (.base ce)) (F2'.tb + F2'.tmax) := ⟨CBL.mono _ _ _ rcs m2.bound, cbe⟩
  refine ⟨r, hr, ?_⟩
  rw [hflat] at hsz ⊢
  exact wfChunk_encodeProg cidx consts _ r _ hsimple hu2 hrlt
    (flatAux_regs _ _ hcbl 0 0) hsz hc

end KotoVerif.Compile
