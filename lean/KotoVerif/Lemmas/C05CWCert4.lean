/-
C05 `compile_wf`, certificate for the whole statement layer, part 4: the listing of every compiled main
block passes `checkAnns`; no execution of it meets an internal fault.
-/
import KotoVerif.Lemmas.C05CWCert3

set_option linter.unusedSimpArgs false

namespace KotoVerif.Compile
open KotoVerif.Gen KotoVerif.Bytecode

/-- the instructions of an encoded main block -/
def progInstrs (cidx : Int → Nat) (ru : Nat) (flat : List LFlat) (r : Reg) : List Bytecode.Instr :=
  ⟨.NewFrame, [ru]⟩ :: (encL cidx [] flat ++ [⟨.Return, [r]⟩])

theorem encodeProg_eq (cidx : Int → Nat) (ru : Nat) (flat : List LFlat) (r : Reg) :
    encodeProg cidx ru flat r = (progInstrs cidx ru flat r).flatMap encode := rfl

/-- **certificate for every main block of the statement layer** — `break`, `continue` and endless
`loop` included: the sweep of the encoded bytes is the listing of the emitted instructions, and the
listing (annotated with depth `(0,0,0)`) passes the verifier's check `checkAnns`. -/
theorem cert_compileProg (s : Stmt) (e : Expr) (lc : Nat) (flat : List LFlat) (o : Out) (F2 : Frame)
    (cidx : Int → Nat) (consts : List CKind)
    (h : compileProg s e lc = some (flat, o, F2)) (hlc : lc ≤ 254)
    (hsz : sizeOfL cidx flat ≤ 65535)
    (hc : ∀ n, cidx n < 4294967296 ∧ consts[cidx n]? = some .int) :
    ∃ r, o.reg = some r
      ∧ sweep ((encodeProg cidx F2.registersUsed flat r).length + 1) 0 (encodeProg cidx F2.registersUsed flat r)
          = some (lay none 0 (progInstrs cidx F2.registersUsed flat r), [])
      ∧ checkAnns consts 0 0 (lay (some Z) 0 (progInstrs cidx F2.registersUsed flat r)) = true := by
  simp only [compileProg, bind, Option.bind_eq_some_iff, Prod.exists, pure, Option.some.injEq, Prod.mk.injEq] at h
  obtain ⟨cs, F1, hcs, ce, o', F2', hce, rfl, rfl, rfl⟩ := h
  have hw0 := mainFrame_wf' lc
  have ht0 : T ({ tb := 1 + lc } : Frame) := by simp [T]
  have hu0 : U ({ tb := 1 + lc } : Frame) := by simp only [U]; omega
  obtain ⟨fs, rcs, _⟩ := compileS_facts s false _ cs F1 hcs hw0 ht0
  obtain ⟨m2, t2, cbe⟩ := compile_regs e .any F1 ce o' F2' hce fs.wf fs.t noFix_any
  have ff := compile_frame e .any F1 ce o' F2' hce fs.wf
  have hreg : ∃ r, o'.reg = some r := by
    rcases ff.shape with hsh | ⟨_, _, r, _, hr, _⟩
    · exact ⟨_, by rw [hsh]⟩
    · exact ⟨r, hr⟩
  obtain ⟨r, hr⟩ := hreg
  have hrlt := out_bound ff t2 noFix_any r hr
  have hu2 : F2'.registersUsed ≤ 255 := compile_fits e .any F1 ce o' F2' hce (fs.fits hu0)
  -- the stream
  obtain ⟨j1, k1⟩ := flattenL_range cs
  obtain ⟨j2, k2⟩ := ofFlat_ok (flatten ce) (flatten_jumpsOk ce)
  have hjump : jumpsOkL (flattenL cs ++ (flatten ce).map LFlat.ofFlat) = true := jumpsOkL_append _ _ j1 j2
  have hback : backOkL 0 (flattenL cs ++ (flatten ce).map LFlat.ofFlat) = true :=
    backOkL_append _ _ 0 k1 (k2 _)
  have hregs : ∀ f ∈ flattenL cs ++ (flatten ce).map LFlat.ofFlat, ∀ q ∈ lflatRegs f, q < F2'.registersUsed := by
    intro f hf q hq
    simp only [List.mem_append] at hf
    rcases hf with hf | hf
    · exact flatAux_regs cs _ (CBL.mono _ _ _ rcs m2.bound) 0 0 f hf q hq
    · exact ofFlat_regs _ _ (flatten_regs ce _ cbe) f hf q hq
  have hbody : ∀ i ∈ encL cidx [] (flattenL cs ++ (flatten ce).map LFlat.ofFlat) ++ [⟨.Return, [r]⟩],
      InstrOk consts F2'.registersUsed i := by
    intro i hi
    simp only [List.mem_append, List.mem_singleton] at hi
    rcases hi with hi | rfl
    · exact encL_ok cidx consts _ hu2 hc _ [] hregs (by simpa [sizeOfL_nil] using hsz) i hi
    · exact instrOk_return consts _ r hu2 hrlt
  refine ⟨r, hr, ?_⟩
  rw [encodeProg_eq]
  unfold progInstrs
  apply cert_of_program F2'.registersUsed _ consts
  · intro i hi
    simp only [List.mem_cons] at hi
    rcases hi with rfl | hi
    · simp [Instr.valid, Instr.fields, Instr.staticArgs, layout, tailLayout, fieldsOk, fieldOk]; omega
    · exact (hbody i hi).valid
  · exact fun i hi => (hbody i hi).notFn
  · exact fun i hi => (hbody i hi).notNf
  · exact fun i hi => (hbody i hi).neutral
  · exact fun i hi => (hbody i hi).lin
  · exact fun i hi => (hbody i hi).regs
  · exact fun i hi => (hbody i hi).consts
  · -- targets
    have hnfsize : esize ⟨.NewFrame, [F2'.registersUsed]⟩ = 2 := by
      simp [esize, encode, Instr.fields, Instr.staticArgs, layout, tailLayout, encodeFields, encodeField, Op.code]
    have hsuccNF : succPcs ⟨0, 2, ⟨.NewFrame, [F2'.registersUsed]⟩, some Z⟩ = some [2] := by
      simp [succPcs, fwdOffsets, Instr.fields, Instr.staticArgs, layout, tailLayout, Ann.next]
    simp only [lay, hnfsize, Nat.zero_add]
    refine ⟨⟨_, hsuccNF, ?_⟩, ?_⟩
    · intro p hp
      simp at hp
      subst hp
      left
      refine ⟨by simp, ?_⟩
      obtain ⟨b, hb, hbp⟩ := pcAt cidx (some Z) ⟨.Return, [r]⟩ (flattenL cs ++ (flatten ce).map LFlat.ofFlat) [] 2 0
        (Nat.zero_le _)
      exact ⟨b, hb, by simpa [sizeOfL] using hbp⟩
    · apply tgt_rest cidx r _ [] _ 2 hjump (by simpa using hback)
      intro m hm1 hm2
      simp at hm2
      omega

/-- … hence every execution of that code in the abstract VM is free of internal faults -/
theorem compileProg_no_fault (s : Stmt) (e : Expr) (lc : Nat) (flat : List LFlat) (o : Out) (F2 : Frame)
    (cidx : Int → Nat) (consts : List CKind)
    (h : compileProg s e lc = some (flat, o, F2)) (hlc : lc ≤ 254)
    (hsz : sizeOfL cidx flat ≤ 65535)
    (hc : ∀ n, cidx n < 4294967296 ∧ consts[cidx n]? = some .int) :
    ∃ r, o.reg = some r ∧ ∀ c, Reach (lay (some Z) 0 (progInstrs cidx F2.registersUsed flat r)) ⟨0, 0, 0, []⟩ c →
      ¬ Fault (lay (some Z) 0 (progInstrs cidx F2.registersUsed flat r)) c := by
  obtain ⟨r, hr, _, hchk⟩ := cert_compileProg s e lc flat o F2 cidx consts h hlc hsz hc
  have hf := unitFacts_of_checkAnns consts 0 0 _ hchk
  exact ⟨r, hr, fun c hreach => good_no_fault consts 0 0 _ hf c (good_reach consts 0 0 _ hf c hreach)⟩

end KotoVerif.Compile
