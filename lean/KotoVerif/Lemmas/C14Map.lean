/-
C14 — lemmas about the order-preserving map (`Equal.OMap`): the key list after each operation is
the insertion-order specification, keys stay pairwise non-equivalent, two keys address the same
entry iff they are equivalent; the mechanism-level lookups (hash first) agree with the spec on
hash-consistent key sets.
-/
import KotoVerif.Model.Equal
import KotoVerif.Model.Sort
import KotoVerif.Lemmas.C14Sort

namespace KotoVerif
namespace Equal
namespace OMap

variable {β : Type}

/-- the key matcher is a partial equivalence (symmetric, transitive) -/
structure KeyPER (m : Val → Val → Bool) : Prop where
  symm : ∀ a b, m a b = m b a
  trans : ∀ a b c, m a b = true → m b c = true → m a c = true

/-- keys pairwise non-equivalent -/
def Distinct (m : Val → Val → Bool) (ks : List Val) : Prop :=
  ks.Pairwise (fun a b => m a b = false)

/-! #### insertion-order specification on key lists -/

/-- insert: an equivalent key keeps its place (and its spelling), a new key goes to the end -/
def specInsert (m : Val → Val → Bool) (k : Val) (ks : List Val) : List Val :=
  if ks.any (m k) then ks else ks ++ [k]

/-- remove: the first (= only) equivalent key disappears, the rest keep their order -/
def specRemove (m : Val → Val → Bool) (k : Val) (ks : List Val) : List Val := ks.eraseP (m k)

theorem keys_insert (m : Val → Val → Bool) (k : Val) (v : β) (es : List (Val × β)) :
    keys (insert m k v es).1 = specInsert m k (keys es) := by
  induction es with
  | nil => simp [insert, keys, specInsert]
  | cons e es ih =>
    obtain ⟨k', v'⟩ := e
    simp only [insert]
    by_cases h : m k k' = true
    · simp [h, keys, specInsert]
    · have h' : m k k' = false := by simpa using h
      simp only [h', Bool.false_eq_true, if_false]
      simp only [keys, List.map_cons] at ih ⊢
      rw [ih]
      simp only [specInsert, List.any_cons, h', Bool.false_or]
      split <;> simp

theorem keys_remove (m : Val → Val → Bool) (k : Val) (es : List (Val × β)) :
    keys (remove m k es).1 = specRemove m k (keys es) := by
  induction es with
  | nil => simp [remove, keys, specRemove]
  | cons e es ih =>
    obtain ⟨k', v'⟩ := e
    simp only [remove]
    by_cases h : m k k' = true
    · simp [h, keys, specRemove]
    · have h' : m k k' = false := by simpa using h
      simp only [h', Bool.false_eq_true, if_false]
      simp only [keys, List.map_cons, specRemove] at ih ⊢
      rw [ih, List.eraseP_cons]
      simp [h']

theorem distinct_specInsert {m : Val → Val → Bool} (hm : KeyPER m) (k : Val) (ks : List Val)
    (h : Distinct m ks) : Distinct m (specInsert m k ks) := by
  unfold specInsert
  split
  · exact h
  · rename_i hany
    have hno : ∀ a ∈ ks, m k a = false := by
      intro a ha
      have : ¬ (ks.any (m k) = true) := hany
      simp only [List.any_eq_true, not_exists, not_and] at this
      simpa using this a ha
    unfold Distinct
    rw [List.pairwise_append]
    refine ⟨h, by simp, ?_⟩
    intro a ha b hb
    simp only [List.mem_singleton] at hb
    subst hb
    rw [hm.symm]
    exact hno a ha

theorem distinct_specRemove {m : Val → Val → Bool} (k : Val) (ks : List Val)
    (h : Distinct m ks) : Distinct m (specRemove m k ks) :=
  List.Pairwise.sublist (List.eraseP_sublist) h

/-- lookups see only the matcher's verdicts on the stored keys -/
theorem lookupBy_congr (m m' : Val → Val → Bool) (k k' : Val) (es : List (Val × β))
    (h : ∀ e ∈ es, m k e.1 = m' k' e.1) : lookupBy m k es = lookupBy m' k' es := by
  induction es with
  | nil => rfl
  | cons e es ih =>
    obtain ⟨k0, v0⟩ := e
    simp only [lookupBy]
    rw [h (k0, v0) (by simp)]
    rw [ih (fun e he => h e (List.mem_cons_of_mem _ he))]

theorem findIdx_congr (m m' : Val → Val → Bool) (k k' : Val) (es : List (Val × β))
    (h : ∀ e ∈ es, m k e.1 = m' k' e.1) : findIdx m k es = findIdx m' k' es := by
  induction es with
  | nil => rfl
  | cons e es ih =>
    obtain ⟨k0, v0⟩ := e
    simp only [findIdx]
    rw [h (k0, v0) (by simp)]
    rw [ih (fun e he => h e (List.mem_cons_of_mem _ he))]

/-- equivalent keys are interchangeable in every lookup -/
theorem per_same_verdict {m : Val → Val → Bool} (hm : KeyPER m) (k k' x : Val) (h : m k k' = true) :
    m k x = m k' x := by
  cases h1 : m k x <;> cases h2 : m k' x <;> try rfl
  · have : m k x = true := hm.trans k k' x h h2
    rw [h1] at this; exact absurd this (by simp)
  · have hk : m k' k = true := by rw [hm.symm]; exact h
    have : m k' x = true := hm.trans k' k x hk h1
    rw [h2] at this; exact absurd this (by simp)

/-! #### sorting commutes with taking keys -/

theorem map_insertBy_fst (lt : Val → Val → Bool) (e : Val × β) (es : List (Val × β)) :
    (Sorting.insertBy (fun a b => lt a.1 b.1) e es).map Prod.fst =
      Sorting.insertBy lt e.1 (es.map Prod.fst) := by
  induction es with
  | nil => simp [Sorting.insertBy]
  | cons x xs ih =>
    simp only [Sorting.insertBy, List.map_cons]
    split <;> simp [ih]

theorem map_sortBy_fst (lt : Val → Val → Bool) (es : List (Val × β)) :
    (Sorting.sortBy (fun a b => lt a.1 b.1) es).map Prod.fst = Sorting.sortBy lt (es.map Prod.fst) := by
  induction es with
  | nil => simp [Sorting.sortBy]
  | cons x xs ih => simp only [Sorting.sortBy, List.map_cons, map_insertBy_fst, ih]

theorem distinct_perm {m : Val → Val → Bool} (hm : KeyPER m) {ks ks' : List Val} (hp : ks'.Perm ks)
    (h : Distinct m ks) : Distinct m ks' :=
  (List.Perm.pairwise_iff (fun {a b} (hab : m a b = false) => by rw [hm.symm]; exact hab) hp).mpr h

/-! #### operation sequences -/

/-- the mutating map operations, with their arguments -/
inductive MapOp (β : Type) where
  | insert (k : Val) (v : β)
  | remove (k : Val)
  | extend (other : List (Val × β))
  | clear
  | sortBy (lt : Val → Val → Bool)
  /-- `m[i] = (k, v)` in the cases where it completes: `i` valid and `k` not present at another index -/
  | replace (i : Nat) (k : Val) (v : β)

def replaceOk (m : Val → Val → Bool) (i : Nat) (k : Val) (ks : List Val) : Bool :=
  decide (i < ks.length) && ((ks.eraseIdx i).all (fun x => !m k x))

def runOp (m : Val → Val → Bool) : MapOp β → List (Val × β) → List (Val × β)
  | .insert k v, es => (insert m k v es).1
  | .remove k, es => (remove m k es).1
  | .extend other, es => extend m es other
  | .clear, _ => []
  | .sortBy lt, es => Sorting.sortBy (fun a b => lt a.1 b.1) es
  | .replace i k v, es => if replaceOk m i k (keys es) then replaceAt i k v es else es

/-- the same operations on the bare key list: the insertion-order specification -/
def specOp (m : Val → Val → Bool) : MapOp β → List Val → List Val
  | .insert k _, ks => specInsert m k ks
  | .remove k, ks => specRemove m k ks
  | .extend other, ks => (keys other).foldl (fun acc k => specInsert m k acc) ks
  | .clear, _ => []
  | .sortBy lt, ks => Sorting.sortBy lt ks
  | .replace i k _, ks => if replaceOk m i k ks then ks.set i k else ks

theorem keys_extend (m : Val → Val → Bool) (es other : List (Val × β)) :
    keys (extend m es other) = (keys other).foldl (fun acc k => specInsert m k acc) (keys es) := by
  induction other generalizing es with
  | nil => simp [extend, keys]
  | cons e other ih =>
    obtain ⟨k, v⟩ := e
    simp only [extend]
    rw [ih, keys_insert]
    simp [keys]

theorem keys_runOp (m : Val → Val → Bool) (op : MapOp β) (es : List (Val × β)) :
    keys (runOp m op es) = specOp m op (keys es) := by
  cases op with
  | insert k v => exact keys_insert m k v es
  | remove k => exact keys_remove m k es
  | extend other => exact keys_extend m es other
  | clear => rfl
  | sortBy lt => exact map_sortBy_fst lt es
  | replace i k v =>
    simp only [runOp, specOp]
    split
    · simp [replaceAt, keys, List.map_set]
    · rfl

theorem distinct_foldl_insert {m : Val → Val → Bool} (hm : KeyPER m) (new ks : List Val)
    (h : Distinct m ks) : Distinct m (new.foldl (fun acc k => specInsert m k acc) ks) := by
  induction new generalizing ks with
  | nil => exact h
  | cons k new ih => exact ih _ (distinct_specInsert hm k ks h)

theorem distinct_set {m : Val → Val → Bool} (hm : KeyPER m) (i : Nat) (k : Val) (ks : List Val)
    (h : Distinct m ks) (hok : replaceOk m i k ks = true) : Distinct m (ks.set i k) := by
  simp only [replaceOk, Bool.and_eq_true, decide_eq_true_eq, List.all_eq_true, Bool.not_eq_true'] at hok
  obtain ⟨hi, hall⟩ := hok
  -- ks = pre ++ x :: post, set i = pre ++ k :: post, eraseIdx i = pre ++ post
  have hsplit : ks = ks.take i ++ ks[i] :: ks.drop (i + 1) := by
    rw [List.getElem_cons_drop]; simp
  have hset : ks.set i k = ks.take i ++ k :: ks.drop (i + 1) := by
    rw [List.set_eq_take_append_cons_drop]; simp [hi]
  have herase : ks.eraseIdx i = ks.take i ++ ks.drop (i + 1) := List.eraseIdx_eq_take_drop_succ ks i
  rw [herase] at hall
  rw [hset]
  unfold Distinct at h ⊢
  rw [hsplit] at h
  rw [List.pairwise_append] at h ⊢
  obtain ⟨hpre, hrest, hcross⟩ := h
  have hrest' := List.pairwise_cons.mp hrest
  refine ⟨hpre, ?_, ?_⟩
  · apply List.pairwise_cons.mpr
    refine ⟨?_, hrest'.2⟩
    intro b hb
    exact hall b (List.mem_append_right _ hb)
  · intro a ha b hb
    rcases List.mem_cons.mp hb with rfl | hb'
    · rw [hm.symm]; exact hall a (List.mem_append_left _ ha)
    · exact hcross a ha b (List.mem_cons_of_mem _ hb')

theorem distinct_specOp {m : Val → Val → Bool} (hm : KeyPER m) (op : MapOp β) (ks : List Val)
    (h : Distinct m ks) : Distinct m (specOp m op ks) := by
  cases op with
  | insert k v => exact distinct_specInsert hm k ks h
  | remove k => exact distinct_specRemove k ks h
  | extend other => exact distinct_foldl_insert hm _ ks h
  | clear => exact List.Pairwise.nil
  | sortBy lt => exact distinct_perm hm (Sorting.sortBy_perm lt ks) h
  | replace i k v =>
    simp only [specOp]
    split
    · rename_i hok; exact distinct_set hm i k ks h hok
    · exact h

/-- after any sequence of operations: the key list is what the insertion-order specification says,
and the keys are pairwise non-equivalent -/
theorem ops_invariant {m : Val → Val → Bool} (hm : KeyPER m) (ops : List (MapOp β)) (es : List (Val × β))
    (h : Distinct m (keys es)) :
    keys (ops.foldl (fun acc op => runOp m op acc) es) = ops.foldl (fun ks op => specOp m op ks) (keys es) ∧
    Distinct m (keys (ops.foldl (fun acc op => runOp m op acc) es)) := by
  induction ops generalizing es with
  | nil => exact ⟨rfl, h⟩
  | cons op ops ih =>
    simp only [List.foldl_cons]
    have hk := keys_runOp m op es
    have hd : Distinct m (keys (runOp m op es)) := by rw [hk]; exact distinct_specOp hm op _ h
    have := ih (runOp m op es) hd
    rw [hk] at this
    exact this

/-! #### the mechanism (hash first) agrees with the spec on hash-consistent keys -/

/-- on a key set where equal keys hash equally, the hashed probe gives the same verdicts as `keyEq` -/
theorem keyEqH_eq_keyEq_on (F : FloatOps) (k : Val) (es : List (Val × β))
    (hc : ∀ e ∈ es, keyEq F k e.1 = true → hashEq F k e.1 = true) :
    ∀ e ∈ es, keyEqH F k e.1 = keyEq F k e.1 := by
  intro e he
  unfold keyEqH
  cases h : keyEq F k e.1
  · simp
  · simp [hc e he h]

theorem getMatch_lookup_eq_spec (F : FloatOps) (k : Val) (es : List (Val × β))
    (hc : ∀ e ∈ es, keyEq F k e.1 = true → hashEq F k e.1 = true) :
    lookupBy (getMatch F es.length) k es = lookupBy (keyEq F) k es := by
  unfold getMatch
  split
  · rfl
  · exact lookupBy_congr _ _ k k es (keyEqH_eq_keyEq_on F k es hc)

end OMap
end Equal
end KotoVerif
