/-
C05 `compile_wf`: the certificate version of the acceptance lemma (no reachability hypothesis).
-/
import KotoVerif.Lemmas.C05CWBytes2

namespace KotoVerif.Bytecode
open KotoVerif.Gen

/-- The certificate version of `wfChunk_of_program`, without the reachability hypothesis: the sweep of
the encoded program is its listing, and the listing annotated with depth `(0,0,0)` everywhere passes
`checkAnns` (an annotation may also cover unreachable instructions, as long as it is consistent). This
is all the soundness theorems use (`UnitFacts`); that the verifier's own inference `annotate` finds
an accepted annotation is `wfChunk_of_program`. -/
theorem cert_of_program (rc : Nat) (body : List Instr) (consts : List CKind)
    (hv : ∀ i ∈ (⟨.NewFrame, [rc]⟩ :: body : List Instr), i.valid = true)
    (hf : ∀ i ∈ body, i.op ≠ .Function) (hnf : ∀ i ∈ body, i.op ≠ .NewFrame)
    (hneutral : ∀ i ∈ body, ∀ d, applyEff i.op d = some d)
    (hlin : ∀ i ∈ body, ∀ s t, linStep i.op s t = some (s, t))
    (hregs : ∀ i ∈ body, regsOk rc i = true) (hconsts : ∀ i ∈ body, constsOk consts i = true)
    (htgt : TgtOkS [] (lay (some Z) 0 (⟨.NewFrame, [rc]⟩ :: body))) :
    sweep (((⟨.NewFrame, [rc]⟩ :: body : List Instr).flatMap encode).length + 1) 0
        ((⟨.NewFrame, [rc]⟩ :: body : List Instr).flatMap encode)
      = some (lay none 0 (⟨.NewFrame, [rc]⟩ :: body), [])
    ∧ checkAnns consts 0 0 (lay (some Z) 0 (⟨.NewFrame, [rc]⟩ :: body)) = true := by
  generalize hnf0 : (⟨.NewFrame, [rc]⟩ : Instr) = nf at *
  have hprog : ∀ i ∈ (nf :: body), i.op ≠ .Function := by
    intro i hi; simp at hi; rcases hi with rfl | hi
    · simp [← hnf0]
    · exact hf i hi
  have hneut : ∀ i ∈ (nf :: body), ∀ d, applyEff i.op d = some d := by
    intro i hi d; simp at hi; rcases hi with rfl | hi
    · simp [← hnf0, applyEff]
    · exact hneutral i hi d
  have hlin' : ∀ i ∈ (nf :: body), ∀ s t, linStep i.op s t = some (s, t) := by
    intro i hi s t; simp at hi; rcases hi with rfl | hi
    · simp [← hnf0, linStep]
    · exact hlin i hi s t
  have hlen : (nf :: body).length < ((nf :: body).flatMap encode).length + 1 := by
    have : ∀ (l : List Instr), (∀ i ∈ l, i.valid = true) → l.length ≤ (l.flatMap encode).length := by
      intro l
      induction l with
      | nil => intro; simp
      | cons i r ih =>
        intro h
        have := esize_ge_two i (h i (by simp))
        have := ih (fun j hj => h j (by simp [hj]))
        simp [esize] at *
        omega
    have := this _ hv
    omega
  refine ⟨sweep_lay (nf :: body) hv hprog (by simpa using hnf) 0 _ hlen, ?_⟩
  have hd : ∀ a ∈ lay (some Z) 0 (nf :: body), a.d = some Z := fun a ha => (lay_mem _ _ _ _ ha).2
  simp only [lay, checkAnns, Bool.and_eq_true, decide_eq_true_eq]
  refine ⟨⟨⟨⟨⟨⟨⟨by trivial, by simp [← hnf0]⟩, Nat.zero_le _⟩, by simp [Z]⟩, ?_⟩, ?_⟩, ?_⟩, ?_⟩
  · rw [List.all_eq_true]
    intro b hb
    have := hnf _ (lay_mem _ _ _ _ hb).1
    simpa using this
  · exact pcsFrom_lay (some Z) (nf :: body) hv 0 0 (Nat.le_refl _)
  · have : argAt nf 0 = rc := by simp [← hnf0, argAt]
    rw [this]
    apply checkFrom_of rc consts _ [] (by intro a ha; simp at ha) hd
    · intro a ha; exact hneut _ (lay_mem _ _ _ _ ha).1 Z
    · intro a ha
      have hm := (lay_mem _ _ _ _ ha).1
      simp at hm
      rcases hm with hm | hm
      · rw [hm]; simp [← hnf0, regsOk, regAccesses, regOperands, Instr.fields, Instr.staticArgs, layout, tailLayout, windowTop, constsOk, constOperands]
      · exact ⟨hregs _ hm, hconsts _ hm⟩
    · exact htgt
  · exact linOk_of _ hd (fun a ha => hlin' _ (lay_mem _ _ _ _ ha).1)

end KotoVerif.Bytecode
