/-
C05 `compile_wf`, certificate for the whole statement layer, part 2: in a flat stream whose jumps
stay inside it, every successor is an instruction of the listing.
-/
import KotoVerif.Lemmas.C05CWCert1
import KotoVerif.Lemmas.C05CWLoop6

set_option linter.unusedSimpArgs false

namespace KotoVerif.Compile
open KotoVerif.Gen KotoVerif.Bytecode

theorem encL_cons (cidx : Int → Nat) (done : List LFlat) (f : LFlat) (rest : List LFlat) :
    ∃ i, encL cidx done (f :: rest) = i :: encL cidx (f :: done) rest ∧ esize i = lflatSize cidx f := by
  cases f with
  | op x => exact ⟨_, rfl, rfl⟩
  | jumpIfFalse r k => exact ⟨_, rfl, esize_jif _ _⟩
  | jumpIfTrue r k => exact ⟨_, rfl, esize_jit _ _⟩
  | jump k => exact ⟨_, rfl, esize_jump _⟩
  | jumpBack k => exact ⟨_, rfl, esize_jb _⟩

/-- the instruction `k` places further on (or the `Return` that follows the stream) sits at the pc
given by the byte sizes of the `k` instructions in between -/
theorem pcAt (cidx : Int → Nat) (d : Option Depth) (ret : Bytecode.Instr) (X : List LFlat) :
    ∀ (done : List LFlat) (pc k : Nat), k ≤ X.length →
      ∃ b ∈ lay d pc (encL cidx done X ++ [ret]), b.pc = pc + sizeOfL cidx (X.take k) := by
  induction X with
  | nil =>
    intro done pc k hk
    have : k = 0 := by simpa using hk
    subst this
    exact ⟨⟨pc, esize ret, ret, d⟩, by simp [encL, lay], by simp [sizeOfL]⟩
  | cons f rest ih =>
    intro done pc k hk
    obtain ⟨i, hi, hsz⟩ := encL_cons cidx done f rest
    rw [hi]
    cases k with
    | zero => exact ⟨⟨pc, esize i, i, d⟩, by simp [lay], by simp [sizeOfL]⟩
    | succ k' =>
      obtain ⟨b, hb, hbp⟩ := ih (f :: done) (pc + esize i) k' (by simpa using hk)
      refine ⟨b, by simp [lay, hb], ?_⟩
      rw [hbp, List.take_succ_cons, sizeOfL_cons, hsz]
      omega

/-- the instructions already passed, seen from the current position: the `m`-th last one starts
`sizeOfL (done.take m)` bytes before `pc` -/
def Hseen (cidx : Int → Nat) (done : List LFlat) (seen : List Ann) (pc : Nat) : Prop :=
  ∀ m, 1 ≤ m → m ≤ done.length → ∃ b ∈ seen, b.pc + sizeOfL cidx (done.take m) = pc

/-- **targets from in-range jumps**: in a flat stream whose forward skips and backward distances stay
inside the stream, every successor of every encoded instruction is the pc of an instruction of the
listing (a later one, or one already passed for `JumpBack`) — whatever the structure of the stream. -/
theorem tgt_rest (cidx : Int → Nat) (r : Nat) : ∀ (rest done : List LFlat) (seen : List Ann) (pc : Nat),
    jumpsOkL rest = true → backOkL done.length rest = true → Hseen cidx done seen pc →
    TgtOkS seen (lay (some Z) pc (encL cidx done rest ++ [⟨.Return, [r]⟩])) := by
  intro rest
  induction rest with
  | nil =>
    intro done seen pc _ _ _
    simp only [encL, List.nil_append, lay]
    exact ⟨⟨[], by simp [succPcs], by simp⟩, trivial⟩
  | cons f rest ih =>
    intro done seen pc hj hb hseen
    simp only [jumpsOkL, Bool.and_eq_true, decide_eq_true_eq] at hj
    obtain ⟨i, hi, hsz⟩ := encL_cons cidx done f rest
    have hb' : backOkL (f :: done).length rest = true := by
      cases f <;> simp only [backOkL, Bool.and_eq_true] at hb <;> first | exact hb | exact hb.2
    -- the state for the rest of the stream
    have hseen' : Hseen cidx (f :: done) (⟨pc, esize i, i, some Z⟩ :: seen) (pc + esize i) := by
      intro m hm1 hm2
      cases m with
      | zero => omega
      | succ m' =>
        cases m' with
        | zero => exact ⟨⟨pc, esize i, i, some Z⟩, by simp, by simp [sizeOfL_cons, sizeOfL_nil, hsz]⟩
        | succ m'' =>
          obtain ⟨b, hbm, hbp⟩ := hseen (m'' + 1) (by omega) (by simpa using hm2)
          refine ⟨b, by simp [hbm], ?_⟩
          rw [List.take_succ_cons, sizeOfL_cons, hsz]
          omega
    have hrec := ih (f :: done) (⟨pc, esize i, i, some Z⟩ :: seen) (pc + esize i) hj.2 hb' hseen'
    -- the next instruction of the listing (there is always the Return)
    have hnext : ∃ b ∈ lay (some Z) (pc + esize i) (encL cidx (f :: done) rest ++ [⟨.Return, [r]⟩]), b.pc = pc + esize i := by
      obtain ⟨b, hbm, hbp⟩ := pcAt cidx (some Z) ⟨.Return, [r]⟩ rest (f :: done) (pc + esize i) 0 (Nat.zero_le _)
      exact ⟨b, hbm, by simpa [sizeOfL] using hbp⟩
    have hfar : ∀ k, k ≤ rest.length →
        ∃ b ∈ lay (some Z) (pc + esize i) (encL cidx (f :: done) rest ++ [⟨.Return, [r]⟩]),
          b.pc = pc + esize i + sizeOfL cidx (rest.take k) :=
      fun k hk => pcAt cidx (some Z) ⟨.Return, [r]⟩ rest (f :: done) (pc + esize i) k hk
    have hpos := esize_pos i
    rw [hi]
    simp only [List.cons_append, lay]
    refine ⟨?_, hrec⟩
    cases f with
    | op x =>
      simp only [encL, List.cons.injEq] at hi
      obtain ⟨hi1, _⟩ := hi
      subst hi1
      obtain ⟨hs, _⟩ := encInstr_succ cidx x pc (esize (encInstr cidx x)) (some Z)
      refine ⟨_, hs, ?_⟩
      intro p hp
      simp at hp
      subst hp
      exact .inl ⟨by simp only; omega, hnext⟩
    | jumpIfFalse q k =>
      simp only [encL, List.cons.injEq] at hi
      obtain ⟨hi1, _⟩ := hi
      subst hi1
      rw [esize_jif] at *
      refine ⟨_, succ_jif pc 4 q _ (some Z), ?_⟩
      intro p hp
      simp at hp
      rcases hp with rfl | rfl
      · exact .inl ⟨by simp only; omega, hnext⟩
      · exact .inl ⟨by simp only; omega, hfar k (by simpa [LFlat.skip] using hj.1)⟩
    | jumpIfTrue q k =>
      simp only [encL, List.cons.injEq] at hi
      obtain ⟨hi1, _⟩ := hi
      subst hi1
      rw [esize_jit] at *
      refine ⟨_, succ_jit pc 4 q _ (some Z), ?_⟩
      intro p hp
      simp at hp
      rcases hp with rfl | rfl
      · exact .inl ⟨by simp only; omega, hnext⟩
      · exact .inl ⟨by simp only; omega, hfar k (by simpa [LFlat.skip] using hj.1)⟩
    | jump k =>
      simp only [encL, List.cons.injEq] at hi
      obtain ⟨hi1, _⟩ := hi
      subst hi1
      rw [esize_jump] at *
      refine ⟨_, succ_jump pc 3 _ (some Z), ?_⟩
      intro p hp
      simp at hp
      subst hp
      exact .inl ⟨by simp only; omega, hfar k (by simpa [LFlat.skip] using hj.1)⟩
    | jumpBack k =>
      simp only [encL, List.cons.injEq] at hi
      obtain ⟨hi1, _⟩ := hi
      subst hi1
      rw [esize_jb] at *
      simp only [backOkL, Bool.and_eq_true, decide_eq_true_eq] at hb
      obtain ⟨⟨hk1, hk2⟩, _⟩ := hb
      -- the target: the instruction itself (k = 1) or the (k-1)-th last one
      have htarget : ∃ b ∈ (⟨pc, 3, ⟨.JumpBack, [sizeOfL cidx (done.take (k - 1)) + 3]⟩, some Z⟩ : Ann) :: seen,
          b.pc + sizeOfL cidx (done.take (k - 1)) = pc := by
        by_cases hk : k = 1
        · subst hk
          exact ⟨⟨pc, 3, ⟨.JumpBack, [sizeOfL cidx (done.take (1 - 1)) + 3]⟩, some Z⟩, by simp, by simp [sizeOfL]⟩
        · obtain ⟨b, hbm, hbp⟩ := hseen (k - 1) (by omega) (by omega)
          exact ⟨b, by simp [hbm], hbp⟩
      obtain ⟨b, hbm, hbp⟩ := htarget
      have hle : sizeOfL cidx (done.take (k - 1)) + 3 ≤ pc + 3 := by omega
      obtain ⟨hs, _⟩ := succ_jb pc (sizeOfL cidx (done.take (k - 1)) + 3) hle
      refine ⟨_, by simpa [JB] using hs, ?_⟩
      intro p hp
      simp at hp
      subst hp
      exact .inr ⟨by simp only; omega, b, hbm, by omega⟩

end KotoVerif.Compile
