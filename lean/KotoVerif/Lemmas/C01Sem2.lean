/-
C01 layer 5: `compile_sem` — the semantic half of compiler correctness (see `C01Sem.lean`).
-/
import KotoVerif.Lemmas.C01Sem

namespace KotoVerif.Compile

variable {S : Sem}

theorem ModeFx.transfer {m : Mode} {fx : Option VarId} {F G : Frame} (h : ModeFx m fx F)
    (hle : FrameLe F G) (htc : G.tc = F.tc) : ModeFx m fx G := by
  unfold ModeFx at h ⊢
  cases m <;> cases fx <;> simp_all
  · rw [hle.tb]; exact h
  · exact hle.named _ _ h

theorem modeFx_fx_none {m : Mode} {fx : Option VarId} {F : Frame} (h : ModeFx m fx F)
    (hm : ∀ r, m ≠ .fixed r) : fx = Option.none := by
  unfold ModeFx at h
  cases m <;> cases fx <;> simp_all

/-- a fixed result register handed down to a sub-expression is meaningful in the extended frame -/
theorem modeFx_fixed_of_res {m : Mode} {fx : Option VarId} {F F1 G : Frame} {res : Out} {r : Reg}
    (ha : assignResult m F = some (res, F1)) (hm : ModeFx m fx F) (hr : res.reg = some r)
    (hle : FrameLe F G) (htc : G.tc = F1.tc) : ModeFx (.fixed r) fx G := by
  obtain ⟨_, _, h3, h4⟩ := assignResult_spec ha
  cases m with
  | fixed q =>
    simp at h4; subst h4; simp at hr; subst hr
    apply hm.transfer hle
    simp [tempCount] at h3; omega
  | none => simp at h4; subst h4; simp at hr
  | any =>
    simp at h4; subst h4; simp at hr; subst hr
    have := modeFx_fx_none hm (by intro r; simp)
    subst this
    simp only [ModeFx, hle.tb]
    simp [tempCount] at h3
    omega

/-- the fresh temporary taken when there is no result register -/
theorem modeFx_fresh_temp {m : Mode} {fx : Option VarId} {F F1 G : Frame} {res : Out}
    (ha : assignResult m F = some (res, F1)) (hm : ModeFx m fx F) (hr : res.reg = Option.none)
    (htb : G.tb = F1.tb) (htc : G.tc = F1.tc + 1) :
    fx = Option.none ∧ ModeFx (.fixed (F1.tb + F1.tc)) Option.none G := by
  obtain ⟨_, h2, h3, h4⟩ := assignResult_spec ha
  cases m with
  | fixed q => simp at h4; subst h4; simp at hr
  | any => simp at h4; subst h4; simp at hr
  | none =>
    have := modeFx_fx_none hm (by intro r; simp)
    subst this
    refine ⟨rfl, ?_⟩
    simp only [ModeFx]
    omega

/-- final step of a "late writer": the single instruction that writes the result register -/
theorem finish_result {m : Mode} {fx : Option VarId} {F F1 F' : Frame} {res : Out} {E : List VarId}
    {σ σ1 : Regs S} {ρ' : Env S} {v : S.V} {f : Reg → Instr}
    (ha : assignResult m F = some (res, F1)) (hle : FrameLe F F') (hw : WF F') (hm : ModeFx m fx F)
    (hrel : RelEx E F' σ1 ρ') (hk : TempsKept m F σ σ1)
    (hstep : ∀ r, res.reg = some r → stepInstr S (f r) σ1 = some (σ1.set r v)) :
    ∃ σ', exec S (instrIf res.reg f) σ1 = some σ' ∧ RelEx (addOpt fx E) F' σ' ρ' ∧
      (∀ r, res.reg = some r → σ' r = v) ∧ TempsKept m F σ σ' := by
  cases hr : res.reg with
  | none =>
    exact ⟨σ1, exec_instrIf_none, hrel.addOpt, fun r h => by simp at h, hk⟩
  | some r =>
    have hres := resReg_of_assignResult ha hr
    refine ⟨σ1.set r v, by rw [exec_instrIf_some]; exact hstep r hr,
      hrel.setResult hle hw hm hres v, ?_, hk.setResult hres v⟩
    intro q hq
    simp only [Option.some.injEq] at hq
    subst hq
    simp

theorem has_unique {F : Frame} (hw : WF F) {r q : Reg} {x : VarId} (h1 : Has F r x) (h2 : Has F q x) : r = q :=
  hw.uniq r q x h1.named h2.named

theorem addOpt_idem {fx : Option VarId} {E : List VarId} : ∀ x, x ∈ addOpt fx (addOpt fx E) → x ∈ addOpt fx E := by
  intro x hx
  cases fx <;> simp_all [addOpt]

theorem tempsKept_any_of {m : Mode} {F F1 : Frame} {res : Out} {σ σ1 : Regs S}
    (ha : assignResult m F = some (res, F1)) (h : TempsKept .any F1 σ σ1) : TempsKept m F σ σ1 := by
  obtain ⟨_, h2, h3, _⟩ := assignResult_spec ha
  exact (TempsKept.refl m F σ).sub h h2 (by omega) (by intro t ht; simp at ht)

theorem relEx_of_assignResult {m : Mode} {F F1 : Frame} {res : Out} {E : List VarId} {σ : Regs S} {ρ : Env S}
    (ha : assignResult m F = some (res, F1)) (h : RelEx E F σ ρ) : RelEx E F1 σ ρ := by
  obtain ⟨h1, h2, _, _⟩ := assignResult_spec ha
  exact h.frame (FrameLe.of_locals_eq h1 h2)

end KotoVerif.Compile
