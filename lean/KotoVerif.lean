import KotoVerif.Common.Proto
