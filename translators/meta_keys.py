#!/usr/bin/env python3
"""Regenerate lean/KotoVerif/Gen/MetaKeys.lean from the Rust sources.

Reads
  * crates/parser/src/parser.rs  fn parse_meta_key(): every arm `Some(Token::X) => MetaKeyId::Y`,
    the `"r" => match …` block (right-hand-side operator keys) and the `"name" => MetaKeyId::Y`
    identifier arms (incl. the two arms that take a name: `test`, `meta`);
  * crates/lexer/src/lexer.rs    check_symbol!/check_keyword! rows, to turn `Token::X` into its spelling;
  * crates/runtime/src/types/meta_map.rs  fn meta_id_to_key(): `MetaKeyId::Y => MetaKey::Cat(Z)` rows
    (category of each key; checked: Z == Y for the operator categories).

Output: `inductive MetaKeyId`, `metaKeyTable : List (List Nat × MetaKeyId)` (spelling after the `@`
as code points, in source order), `MetaKeyId.cat`.
Exits non-zero (message on stderr) when an anchor is missing or a row does not have the expected
shape; the check driver then treats the tie as broken.
"""
import os, re, sys

REPO = os.environ.get("KOTO_REPO", "/repo")


def die(msg):
    sys.exit("meta_keys: " + msg)


def read(rel):
    p = os.path.join(REPO, rel)
    if not os.path.exists(p):
        die(f"source file {rel} not found")
    return open(p, encoding="utf-8").read()


parser = read("crates/parser/src/parser.rs")
lexer = read("crates/lexer/src/lexer.rs")
metamap = read("crates/runtime/src/types/meta_map.rs")

# ---- token spellings --------------------------------------------------------------------------
spell = {}
for s, t in re.findall(r'^\s*check_symbol!\("([^"]+)",\s*(\w+)\);', lexer, re.M):
    spell.setdefault(t, s)
for s, t in re.findall(r'^\s*check_keyword!\("([^"]+)",\s*(\w+)\);', lexer, re.M):
    spell.setdefault(t, s)
if len(spell) < 40:
    die(f"lexer symbol/keyword tables not found (got {len(spell)} rows)")

# ---- parse_meta_key ---------------------------------------------------------------------------
m = re.search(r"fn parse_meta_key\(&mut self\)[^{]*\{", parser)
if not m:
    die("anchor `fn parse_meta_key` not found in parser.rs")
rest = parser[m.end():]
e = re.search(r"\n    fn ", rest)
if not e:
    die("end of parse_meta_key not found")
body = rest[:e.start()]
if "self.peek_next_token_on_same_line() != Some(Token::At)" not in body:
    die("parse_meta_key no longer starts with the `@` test")

km = re.search(r"let meta_key_id = match self\.consume_token\(\) \{", body)
if not km:
    die("`let meta_key_id = match self.consume_token()` not found")
table_src = body[km.end():]
end = table_src.find("\n        };")
if end < 0:
    die("end of the meta_key_id match not found")
table_src = table_src[:end]

rows = []          # (spelling, MetaKeyId, takes_name)
lines = table_src.split("\n")
i = 0
mode = "top"       # top | id | r | named
named_ctx = None
seen_arms = 0
while i < len(lines):
    ln = lines[i].strip()
    i += 1
    if not ln:
        continue
    if mode == "top":
        mm = re.fullmatch(r"Some\(Token::(\w+)\) => MetaKeyId::(\w+),", ln)
        if mm:
            tok, kid = mm.groups()
            if tok not in spell:
                die(f"token {tok} has no spelling in the lexer tables")
            rows.append((spell[tok], kid, False))
            seen_arms += 1
            continue
        if ln == "Some(Token::Id) => match self.current_token.slice(self.source) {":
            mode = "id"
            continue
        if re.fullmatch(r"_ => return self\.error\(SyntaxError::UnexpectedMetaKey\),", ln):
            continue
        die(f"unexpected top-level arm in parse_meta_key: {ln!r}")
    elif mode == "id":
        mm = re.fullmatch(r'"(\w+)" => MetaKeyId::(\w+),', ln)
        if mm:
            rows.append((mm.group(1), mm.group(2), False))
            seen_arms += 1
            continue
        mm = re.fullmatch(r'"(\w+)" => match self\.consume_next_token_on_same_line\(\) \{', ln)
        if mm:
            if mm.group(1) == "r":
                mode = "r"
            else:
                mode = "named"
                named_ctx = mm.group(1)
            continue
        if re.fullmatch(r"_ => return self\.error\(SyntaxError::UnexpectedMetaKey\),", ln):
            continue
        if ln == "},":
            mode = "top"
            continue
        die(f"unexpected identifier arm in parse_meta_key: {ln!r}")
    elif mode == "r":
        mm = re.fullmatch(r"Some\(Token::(\w+)\) => MetaKeyId::(\w+),", ln)
        if mm:
            tok, kid = mm.groups()
            if tok not in spell:
                die(f"token {tok} has no spelling in the lexer tables")
            rows.append(("r" + spell[tok], kid, False))
            seen_arms += 1
            continue
        if re.fullmatch(r"_ => return self\.error\(SyntaxError::\w+\),", ln):
            continue
        if ln == "},":
            mode = "id"
            continue
        die(f"unexpected arm in the `r` block of parse_meta_key: {ln!r}")
    elif mode == "named":
        mm = re.fullmatch(r"MetaKeyId::(\w+)", ln)
        if mm:
            rows.append((named_ctx, mm.group(1), True))
            seen_arms += 1
            continue
        if ln in ("Some(Token::Id) => {", "}", "let test_name = self.add_current_slice_as_string_constant()?;",
                  "let id = self.add_current_slice_as_string_constant()?;", "meta_name = Some(test_name);",
                  "meta_name = Some(id);") or re.fullmatch(r"_ => return self\.error\(SyntaxError::\w+\),", ln):
            continue
        if ln == "},":
            mode = "id"
            continue
        die(f"unexpected line in the `{named_ctx}` block of parse_meta_key: {ln!r}")

n_ids = len(re.findall(r"MetaKeyId::\w+", table_src))
if n_ids != len(rows):
    die(f"{n_ids} MetaKeyId mentions in parse_meta_key but {len(rows)} rows understood")
if len(rows) < 40:
    die(f"unexpected row count {len(rows)} in parse_meta_key")
ids = [r[1] for r in rows]
if len(set(ids)) != len(ids):
    die("a MetaKeyId is produced by two different spellings")
if len(set(r[0] for r in rows)) != len(rows):
    die("a spelling maps to two MetaKeyIds")

# ---- meta_id_to_key ---------------------------------------------------------------------------
mk = re.search(r"pub fn meta_id_to_key\(", metamap)
if not mk:
    die("anchor `fn meta_id_to_key` not found in meta_map.rs")
mbody = metamap[mk.end():]
mbody = mbody[:mbody.find("\n}\n")]
cat = {}
for kid, c, z in re.findall(r"MetaKeyId::(\w+) => MetaKey::(\w+)\((\w+)\),", mbody):
    if z != kid:
        die(f"meta_id_to_key maps MetaKeyId::{kid} to {c}({z}) (names differ)")
    cat[kid] = c
for kid, c in re.findall(r"MetaKeyId::(\w+) => MetaKey::(\w+),", mbody):
    cat[kid] = c
for kid in ("Named", "Test"):
    if re.search(r"MetaKeyId::%s => \{?\s*MetaKey::%s\(" % (kid, kid), mbody):
        cat[kid] = kid
missing = [k for k in ids if k not in cat]
if missing:
    die(f"meta_id_to_key has no row for {missing}")
cats = []
for k in ids:
    if cat[k] not in cats:
        cats.append(cat[k])
CAT_NAMES = {"BinaryOp": "binaryOp", "UnaryOp": "unaryOp", "ReadOp": "readOp", "WriteOp": "writeOp"}


def cat_ctor(c):
    return CAT_NAMES.get(c, "other")


def cps(s):
    return "[" + ", ".join(str(ord(c)) for c in s) + "]"


out = []
out.append("-- GENERATED by translators/meta_keys.py from crates/parser/src/parser.rs (parse_meta_key),")
out.append("-- crates/lexer/src/lexer.rs (token spellings), crates/runtime/src/types/meta_map.rs (meta_id_to_key)")
out.append("-- do not edit")
out.append("namespace KotoVerif.Gen")
out.append("")
out.append("/-- `koto_parser::MetaKeyId` as produced by `parse_meta_key`, in source order. -/")
out.append("inductive MetaKeyId where")
for k in ids:
    out.append(f"  | {k}")
out.append("  deriving DecidableEq, Repr, Inhabited")
out.append("")
out.append("def MetaKeyId.name : MetaKeyId → String")
for k in ids:
    out.append(f'  | .{k} => "{k}"')
out.append("")
out.append("/-- runtime `MetaKey` category (`meta_id_to_key`) -/")
out.append("inductive MetaKeyCat where")
out.append("  | binaryOp | unaryOp | readOp | writeOp | other")
out.append("  deriving DecidableEq, Repr, Inhabited")
out.append("")
out.append("def MetaKeyId.cat : MetaKeyId → MetaKeyCat")
for k in ids:
    out.append(f"  | .{k} => .{cat_ctor(cat[k])}")
out.append("")
out.append("/-- spelling after `@` (code points) ↦ key, rows of `parse_meta_key` in source order -/")
out.append("def metaKeyTable : List (List Nat × MetaKeyId) := [")
out.append(",\n".join(f"  ({cps(s)}, .{k})" for s, k, _ in rows))
out.append("]")
out.append("")
out.append("/-- keys that take a name after the keyword (`@meta name`, `@test name`) -/")
out.append("def metaKeyTakesName : List MetaKeyId := [" + ", ".join("." + k for _, k, n in rows if n) + "]")
out.append("")
out.append("end KotoVerif.Gen")
text = "\n".join(out) + "\n"

dst = os.path.join(os.path.dirname(os.path.abspath(__file__)), "..", "lean", "KotoVerif", "Gen", "MetaKeys.lean")
old = open(dst, encoding="utf-8").read() if os.path.exists(dst) else None
if old != text:
    open(dst, "w", encoding="utf-8").write(text)
print(f"meta_keys: {len(rows)} metakey rows ({sum(1 for r in rows if r[2])} named), {len(set(cat.values()))} categories")
