#!/usr/bin/env python3
"""Regenerate lean/KotoVerif/Gen/OpTable.lean from the Rust sources of /repo.

Reads
  * crates/bytecode/src/op.rs          `pub enum Op { … }` (repr(u8)): variant names in source order = opcode
                                       numbers; the tail must be `Unused<k>` with k = its own index, up to 255;
  * crates/bytecode/src/instruction.rs the accepted ranges of `FunctionFlags::try_from` and
                                       `StringFormatFlags::try_from`, and the four string-format flag bits;
  * crates/parser/src/node.rs          `enum MetaKeyId`: number of variants before `Invalid`;
  * crates/parser/src/string_format_options.rs  `enum StringFormatRepresentation`: number of variants.

Fails loudly (non-zero exit) when an anchor is missing or a row has an unexpected shape; the check
driver then treats the tie as broken.
"""
import os, re, sys

REPO = os.environ.get("KOTO_REPO", "/repo")


def read(rel):
    p = os.path.join(REPO, rel)
    if not os.path.exists(p):
        sys.exit(f"op_table: {rel} not found")
    return open(p, encoding="utf-8").read()


def strip_comments(s):
    s = re.sub(r"/\*.*?\*/", "", s, flags=re.S)
    return re.sub(r"//[^\n]*", "", s)


def enum_body(src, header_pat, what):
    m = re.search(header_pat, src)
    if not m:
        sys.exit(f"op_table: anchor {what} not found")
    i = src.index("{", m.end() - 1)
    depth, j = 0, i
    while j < len(src):
        if src[j] == "{":
            depth += 1
        elif src[j] == "}":
            depth -= 1
            if depth == 0:
                break
        j += 1
    if depth != 0:
        sys.exit(f"op_table: unbalanced braces in {what}")
    return src[i + 1:j]


def variants(body, what):
    body = strip_comments(body)
    body = re.sub(r"#\[[^\]]*\]", "", body)
    out = []
    for row in body.split(","):
        row = row.strip()
        if not row:
            continue
        if not re.fullmatch(r"[A-Z]\w*", row):
            sys.exit(f"op_table: unexpected row shape in {what}: {row!r} (fieldless variants without discriminants expected)")
        out.append(row)
    return out


# ---- Op -------------------------------------------------------------------------------------------
op_src = read("crates/bytecode/src/op.rs")
_m = re.search(r"pub enum Op\s*\{", op_src)
if not _m or "#[repr(u8)]" not in op_src[max(0, _m.start() - 200):_m.start()]:
    sys.exit("op_table: `#[repr(u8)] pub enum Op` not found")
ops = variants(enum_body(op_src, r"pub enum Op\s*\{", "enum Op"), "enum Op")
if len(ops) != 256:
    sys.exit(f"op_table: enum Op has {len(ops)} variants, expected 256")
used = [o for o in ops if not o.startswith("Unused")]
n_used = len(used)
if ops[:n_used] != used:
    sys.exit("op_table: an Unused variant precedes a used one")
for k in range(n_used, 256):
    if ops[k] != f"Unused{k}":
        sys.exit(f"op_table: variant #{k} is {ops[k]}, expected Unused{k}")
if n_used < 80:
    sys.exit(f"op_table: only {n_used} used opcodes found")
if len(set(used)) != n_used:
    sys.exit("op_table: duplicate opcode names")
if not re.search(r"impl From<u8> for Op", op_src) or "transmute(op)" not in op_src:
    sys.exit("op_table: `impl From<u8> for Op` by transmute not found (byte -> opcode mapping changed)")

# ---- flags ------------------------------------------------------------------------------------------
ins_src = read("crates/bytecode/src/instruction.rs")


def try_from_max(ty):
    m = re.search(r"impl TryFrom<u8> for " + ty + r"\s*\{.*?if byte <= 0b([01]+)\s*\{", ins_src, re.S)
    if not m:
        sys.exit(f"op_table: range test of {ty}::try_from not found")
    return int(m.group(1), 2)


fn_flags_max = try_from_max("FunctionFlags")
sf_flags_max = try_from_max("StringFormatFlags")


def flag_bit(name):
    m = re.search(r"pub const " + name + r": u8 = 1 << (\d+);", ins_src)
    if not m:
        sys.exit(f"op_table: StringFormatFlags::{name} not found")
    return 1 << int(m.group(1))


bits = {n: flag_bit(n) for n in ("MIN_WIDTH", "PRECISION", "FILL_CHARACTER", "REPRESENTATION")}
# the decoder's accepted range must cover every byte the compiler can write: two alignment bits + the four options
if sf_flags_max < (0b11 | sum(bits.values())):
    sys.exit(f"op_table: StringFormatFlags::try_from accepts byte <= {sf_flags_max}, but alignment | all options = "
             f"{0b11 | sum(bits.values())}: the decoder rejects flags the compiler emits")


def fn_flag_bit(name):
    m = re.search(r"const " + name + r": u8 = 1 << (\d+);", ins_src)
    if not m:
        sys.exit(f"op_table: FunctionFlags::{name} not found")
    return 1 << int(m.group(1))


fn_bits = {n: fn_flag_bit(n) for n in ("VARIADIC", "GENERATOR", "ARG_IS_UNPACKED_TUPLE", "NON_LOCAL_ACCESS")}
if fn_flags_max < sum(fn_bits.values()):
    sys.exit(f"op_table: FunctionFlags::try_from accepts byte <= {fn_flags_max}, but all flags = {sum(fn_bits.values())}")

# ---- MetaKeyId / StringFormatRepresentation ------------------------------------------------------------
node_src = read("crates/parser/src/node.rs")
meta = variants(enum_body(node_src, r"pub enum MetaKeyId\s*\{", "enum MetaKeyId"), "enum MetaKeyId")
if "Invalid" not in meta or meta[-1] != "Invalid":
    sys.exit("op_table: MetaKeyId::Invalid is not the last variant")
if not re.search(r"if byte < Self::Invalid as u8", node_src):
    sys.exit("op_table: MetaKeyId::try_from range test not found")
meta_invalid = meta.index("Invalid")
fmt_src = read("crates/parser/src/string_format_options.rs")
reprs = variants(enum_body(fmt_src, r"pub enum StringFormatRepresentation\s*\{", "enum StringFormatRepresentation"),
                 "enum StringFormatRepresentation")
n_try = len(re.findall(r"byte == Self::(\w+) as u8", fmt_src))
if n_try != len(reprs):
    sys.exit(f"op_table: StringFormatRepresentation::try_from accepts {n_try} values, enum has {len(reprs)}")

# ---- output -------------------------------------------------------------------------------------------
out = []
out.append("-- GENERATED by translators/op_table.py from crates/bytecode/src/op.rs (+ instruction.rs, parser) — do not edit")
out.append("namespace KotoVerif.Gen")
out.append("")
out.append("/-- The used variants of `koto_bytecode::Op`, in source order (= opcode number). -/")
out.append("inductive Op where")
for o in used:
    out.append(f"  | {o}")
out.append("  deriving DecidableEq, Repr, Inhabited")
out.append("")
out.append("/-- `op as u8` -/")
out.append("def Op.code : Op → Nat")
for k, o in enumerate(used):
    out.append(f"  | .{o} => {k}")
out.append("")
out.append("/-- `Op::from(byte)` restricted to the used opcodes (`Unused<k>` ↦ none). -/")
out.append("def Op.ofCode : Nat → Option Op")
for k, o in enumerate(used):
    out.append(f"  | {k} => some .{o}")
out.append("  | _ => none")
out.append("")
out.append("def Op.name : Op → String")
for o in used:
    out.append(f'  | .{o} => "{o}"')
out.append("")
out.append("def Op.all : List Op := [")
out.append(",\n".join("  " + ", ".join("." + o for o in used[i:i + 8]) for i in range(0, n_used, 8)))
out.append("]")
out.append("")
out.append(f"/-- number of used opcodes; bytes ≥ this value decode to `Unused<k>` (an `Instruction::Error`). -/")
out.append(f"def opCount : Nat := {n_used}")
out.append(f"/-- `FunctionFlags::try_from` accepts `byte ≤ functionFlagsMax`. -/")
out.append(f"def functionFlagsMax : Nat := {fn_flags_max}")
out.append(f"/-- `StringFormatFlags::try_from` accepts `byte ≤ stringFormatFlagsMax`. -/")
out.append(f"def stringFormatFlagsMax : Nat := {sf_flags_max}")
out.append(f"/-- `FunctionFlags::NON_LOCAL_ACCESS` -/")
out.append(f"def fnNonLocalAccess : Nat := {fn_bits['NON_LOCAL_ACCESS']}")
out.append(f"def sfMinWidth : Nat := {bits['MIN_WIDTH']}")
out.append(f"def sfPrecision : Nat := {bits['PRECISION']}")
out.append(f"def sfFillCharacter : Nat := {bits['FILL_CHARACTER']}")
out.append(f"def sfRepresentation : Nat := {bits['REPRESENTATION']}")
out.append(f"/-- `MetaKeyId::try_from` accepts `byte < metaKeyIdInvalid`. -/")
out.append(f"def metaKeyIdInvalid : Nat := {meta_invalid}")
out.append(f"/-- `StringFormatRepresentation::try_from` accepts `byte < stringReprCount`. -/")
out.append(f"def stringReprCount : Nat := {len(reprs)}")
out.append("")
out.append("end KotoVerif.Gen")
text = "\n".join(out) + "\n"

dst = os.path.join(os.path.dirname(os.path.abspath(__file__)), "..", "lean", "KotoVerif", "Gen", "OpTable.lean")
old = open(dst, encoding="utf-8").read() if os.path.exists(dst) else None
if old != text:
    open(dst, "w", encoding="utf-8").write(text)
print(f"op_table: {n_used} opcodes, fn flags ≤ {fn_flags_max}, string flags ≤ {sf_flags_max}, "
      f"{meta_invalid} meta key ids, {len(reprs)} representations")
