#!/usr/bin/env python3
"""Checked table of the narrowing integer casts in crates/bytecode/src/compiler.rs.

Every `as u8` / `as i8` / `as u16` / `as u32` in the compiler is a place where a size limit can be
dropped silently. The C05 harness (boundary_cases() in harness/src/bin/c05.rs) drives the operand of
each reviewed cast across its boundary. This script compares the casts found in the source with the
reviewed table below: a cast expression that is not in the table makes the script fail (exit 2), so
that a new unchecked cast cannot appear without the sweep being extended. Reviewed entries that have
disappeared from the source (a repair replaced the cast by a checked conversion) are only reported.

Table entry: (function, normalised cast expression) -> (sweep families, reason); see the review rule at the table.
"""
import os, re, sys

REPO = os.environ.get("KOTO_REPO", "/repo")
path = os.path.join(REPO, "crates/bytecode/src/compiler.rs")
if not os.path.exists(path):
    sys.exit("cast_table: compiler.rs not found")
src = open(path, encoding="utf-8").read()

# (enclosing function, normalised cast expression) -> (sweep families in boundary_cases(), why that sweep reaches the limit)
#
# Review rule (added after F-C05-15/-16, which an earlier version of this table had marked "bounded by registers"):
# an operand is bounded by the register limit ONLY if every counted element occupies a register of its own at the
# moment the operand is emitted. Targets / patterns / arguments written as `_`, literals, or chain targets (`m[0]`,
# `m.k`) occupy none, so a count of them is NOT bounded; and an operand the VM reads as i8 has its limit at 128, far
# below the register limit. Every index operand therefore has a `-sparse` / `-literals` / `-chain` family next to
# the family with named elements. The table is keyed by function so that the same expression text in another
# function (`i as u8` appears in three) is reviewed on its own.
REVIEWED = {
    ("compile_node", "n as u8"): ("int-literals", "guarded by the match range 0..=255"),
    ("compile_node", "n.unsigned_abs() as u8"): ("int-literals", "guarded by the match range -255..0"),
    ("compile_frame", "arg_index as u8"): ("args-sparse, optional-args, pressure programs (args fill)",
        "args.len() is checked with u8::try_from before; `_` arguments still occupy a register"),
    ("compile_arg", "size_to_check as u8"): ("nested-arg-size", "checked since d0940df"),
    ("compile_unpack_nested_args_of_tuple", "(args.len() - arg_index) as i8"): ("nested-arg-ellipsis-first, nested-arg-index-sparse", "read as i8; nested args limited to 127 (d0940df)"),
    ("compile_unpack_nested_args_of_tuple", "-((args.len() - arg_index) as i8) as u8"): ("nested-arg-ellipsis-first", "as above"),
    ("compile_unpack_nested_args_of_tuple", "arg_index as u8"): ("nested-arg-index, nested-arg-index-sparse", "TempIndex index read as i8; nested args limited to 127"),
    ("compile_unpack_nested_args_of_tuple", "args.len() as i8"): ("nested-arg-ellipsis-first / -last", "nested args limited to 127"),
    ("compile_unpack_nested_args_of_tuple", "-(args.len() as i8 - 1) as u8"): ("nested-arg-ellipsis-first", "as above"),
    ("compile_multi_assign", "i as u8"): ("multi-assign-temp-sparse, multi-assign-temp-chain, multi-assign-temp-fields",
        "TempIndex index, read as i8. NOT bounded by registers: targets `_`, `m[i]`, `m.k` take none; the only check is "
        "targets.len() < 255 — until 07b081f (F-C05-15, fixed): max(targets, values) <= 128 for a temporary tuple"),
    ("compile_multi_assign", "0..nodes_len as u8"): ("multi-assign-temp-result",
        "TempIndex index, read as i8, one per VALUE of the temporary tuple: values take a register each (so < 256) "
        "but the i8 limit is 128 (F-C05-15, fixed by 07b081f: values <= 128)"),
    ("compile_meta_export", "meta_id as u8"): ("-", "enum discriminant (MetaKeyId, < 64)"),
    ("push_var_u32", "(n & 0x7f) as u8"): ("-", "masked"),
    ("compile_string", "size_hint as u32"): ("interpolation-nodes", "string data is bounded by the 4 GiB constant pool"),
    ("compile_string", "style as u8"): ("-", "enum discriminant (StringFormatRepresentation)"),
    ("compile_make_temp_tuple", "elements.len() as u8"): ("match-multi-value, match-multi-literals, multi-assign-temp-*",
        "MakeTempTuple count, read as u8: every element is evaluated into a register of its own (literals too)"),
    ("compile_make_sequence", "elements_batch.len() as u8"): ("list-literal, tuple-literal", "batch <= 64 since 91d516a"),
    ("compile_function", "optional_args.len() as u8"): ("optional-args", "sum with captures checked <= 255"),
    ("compile_function", "captures.len() as u8"): ("captures", "sum with optional args checked <= 255"),
    ("compile_function", "i as u8"): ("captures, optional-args", "i < captures.len(), sum checked <= 255"),
    ("compile_function", "Capture as u8"): ("-", "opcode"),
    ("compile_map_insert", "*key as u8"): ("-", "enum discriminant (MetaKeyId)"),
    ("compile_call", "i as u8"): ("call-packed-after", "i < args.len(); every call argument is evaluated into a register"),
    ("compile_call", "arg_count as u8"): ("call-args", "every call argument is evaluated into a register"),
    ("compile_call", "packed_arg_indices.len() as u8"): ("call-packed-after", "<= argument count"),
    ("compile_match_arm_patterns", "(arm_patterns.len() - pattern_index) as i8"): ("match-ellipsis-first", "only with an ellipsis, i.e. in nested patterns (limited to 127 by d6cca87)"),
    ("compile_match_arm_patterns", "pattern_index as i8"): ("match-index-sparse, match-nested-literals, match-multi-literals, match-multi-sparse",
        "TempIndex / index read as i8. Nested patterns are limited to 127 (d6cca87); the patterns of a multi-value "
        "match arm were NOT limited although literal / `_` patterns take no register (F-C05-16); 07b081f limits every arm to 127"),
    ("compile_match_arm_patterns", "pattern_index as u8"): ("as `pattern_index as i8`", "re-cast of the i8 index"),
    ("compile_match_arm_patterns", "arm_patterns.len() as i8"): ("match-ellipsis-first / -last", "nested only (ellipsis), limited to 127"),
    ("compile_match_arm_patterns", "-(arm_patterns.len() as i8 - 1) as u8"): ("match-ellipsis-first", "as above"),
    ("compile_nested_match_arm_patterns", "pattern_index as u8"): ("match-index-sparse", "index of the nested container in its parent, see `pattern_index as i8`"),
    ("compile_nested_match_arm_patterns", "nested_patterns.len() as u8"): ("match-size", "limited to 127 (d6cca87)"),
    ("push_op", "self.bytes.len() as u32"): ("-", "debug info ip (chunk size checked against u32::MAX)"),
    ("push_bytes_with_span", "self.bytes.len() as u32"): ("-", "as above"),
    ("push_op_without_span", "op as u8"): ("-", "opcode"),
}

# strip line comments, then find `<operand> as <ty>` with a balanced-parenthesis / path operand
code = re.sub(r"//[^\n]*", "", src)
import bisect
fn_starts = [(m.start(), m.group(1)) for m in re.finditer(r"\bfn (\w+)", code)]
fn_pos = [p for p, _ in fn_starts]
def enclosing(j):
    k = bisect.bisect(fn_pos, j) - 1
    return fn_starts[k][1] if k >= 0 else "<top>"
found = {}
for m in re.finditer(r"\bas (u8|i8|u16|u32)\b", code):
    j = m.start()
    k = j - 1
    while k >= 0 and code[k] == " ":
        k -= 1
    end = k + 1
    depth = 0
    while k >= 0:
        c = code[k]
        if c in ")]":
            depth += 1
        elif c in "([":
            if depth == 0:
                break
            depth -= 1
        elif depth == 0 and not (c.isalnum() or c in "_.*&:"):
            break
        k -= 1
    operand = code[k + 1:end].strip()
    # unary minus directly in front of a parenthesised operand belongs to the expression
    if k >= 0 and code[k] == "-" and operand.startswith("("):
        operand = "-" + operand
    expr = re.sub(r"\s+", " ", f"{operand} as {m.group(1)}")
    line = code.count("\n", 0, j) + 1
    found.setdefault((enclosing(j), expr), []).append(line)

# nested forms: `-((…) as i8) as u8` is found as `-((…) as i8) as u8` and its inner cast separately
# every sweep family named in the table must exist in the harness
hsrc = open(os.path.join(os.path.dirname(os.path.abspath(__file__)), "..", "harness", "src", "bin", "c05.rs"), encoding="utf-8").read()
families = set(re.findall(r'v\.push\(\("([a-z0-9-]+)"\.into\(\)', hsrc))
missing = set()
for (fams, _why) in REVIEWED.values():
    for f in re.findall(r"[a-z][a-z0-9]*(?:-[a-z0-9]+)+", fams):
        if f not in families and not any(x.startswith(f.rstrip("-")) for x in families):
            missing.add(f)
if missing:
    print(f"cast_table: sweep families named in the table but absent from boundary_cases(): {sorted(missing)}")
    sys.exit(2)
unreviewed = {e: ls for e, ls in found.items() if e not in REVIEWED}
gone = [e for e in REVIEWED if e not in found]
if unreviewed:
    for e, ls in sorted(unreviewed.items()):
        print(f"cast_table: UNREVIEWED cast `{e[1]}` in fn {e[0]} at compiler.rs line(s) {ls}: add a boundary sweep family in "
              f"harness/src/bin/c05.rs (boundary_cases) and an entry here")
    sys.exit(2)
print(f"cast_table: {sum(len(v) for v in found.values())} narrowing casts in compiler.rs, {len(found)} distinct, all reviewed"
      + (f"; {len(gone)} reviewed entries no longer in the source" if gone else ""))
