#!/usr/bin/env python3
"""Checked table of the narrowing integer casts in crates/bytecode/src/compiler.rs.

Every `as u8` / `as i8` / `as u16` / `as u32` in the compiler is a place where a size limit can be
dropped silently. The C05 harness (boundary_cases() in harness/src/bin/c05.rs) drives the operand of
each reviewed cast across its boundary. This script compares the casts found in the source with the
reviewed table below: a cast expression that is not in the table makes the script fail (exit 2), so
that a new unchecked cast cannot appear without the sweep being extended. Reviewed entries that have
disappeared from the source (a repair replaced the cast by a checked conversion) are only reported.

Table entry: normalised cast expression -> sweep family (or the reason no sweep is needed).
"""
import os, re, sys

REPO = os.environ.get("KOTO_REPO", "/repo")
path = os.path.join(REPO, "crates/bytecode/src/compiler.rs")
if not os.path.exists(path):
    sys.exit("cast_table: compiler.rs not found")
src = open(path, encoding="utf-8").read()

REVIEWED = {
    "n as u8": "int-literals (guarded by the match ranges 0..=255)",
    "n.unsigned_abs() as u8": "int-literals (guarded by the match range -255..0)",
    "arg_index as u8": "fn-params sweep (args.len() checked with u8::try_from); nested: nested-arg-index",
    "size_to_check as u8": "nested-arg-size",
    "(args.len() - arg_index) as i8": "nested-arg-ellipsis-first",
    "-((args.len() - arg_index) as i8) as u8": "nested-arg-ellipsis-first",
    "args.len() as i8": "nested-arg-ellipsis-first",
    "-(args.len() as i8 - 1) as u8": "nested-arg-ellipsis-first",
    "i as u8": "multi-assign-index / optional-args / call-packed-after (bounded by registers or checked sums)",
    "0..nodes_len as u8": "multi-assign from a temp tuple: one register per element, bounded by the register limit",
    "meta_id as u8": "enum discriminant (MetaKeyId, < 64)",
    "(n & 0x7f) as u8": "push_var_u32: masked",
    "imported.len() as u8": "import-items",
    "size_hint as u32": "interpolation-nodes (string data is bounded by the 4 GiB constant pool)",
    "style as u8": "enum discriminant (StringFormatRepresentation)",
    "elements.len() as u8": "MakeTempTuple: one register per element, bounded by the register limit (match-multi-value)",
    "elements_batch.len() as u8": "list-literal / tuple-literal (batch <= available registers)",
    "optional_args.len() as u8": "optional-args (sum with captures checked <= 255)",
    "captures.len() as u8": "captures (sum with optional args checked <= 255)",
    "Capture as u8": "opcode",
    "*key as u8": "enum discriminant (MetaKeyId)",
    "arg_count as u8": "call-args (one register per argument)",
    "packed_arg_indices.len() as u8": "call-packed-after",
    "(arm_patterns.len() - pattern_index) as i8": "match-ellipsis-first",
    "pattern_index as i8": "match-index-tuple / match-index-list / match-multi-value",
    "pattern_index as u8": "match-index-tuple (re-cast of the i8 index)",
    "arm_patterns.len() as i8": "match-ellipsis-first",
    "-(arm_patterns.len() as i8 - 1) as u8": "match-ellipsis-first",
    "nested_patterns.len() as u8": "match-size",
    "self.bytes.len() as u32": "debug info ip (chunk size checked against u32::MAX)",
    "op as u8": "opcode",
}

# strip line comments, then find `<operand> as <ty>` with a balanced-parenthesis / path operand
code = re.sub(r"//[^\n]*", "", src)
found = {}
for m in re.finditer(r"\bas (u8|i8|u16|u32)\b", code):
    j = m.start()
    k = j - 1
    while k >= 0 and code[k] == " ":
        k -= 1
    end = k + 1
    depth = 0
    while k >= 0:
        c = code[k]
        if c in ")]":
            depth += 1
        elif c in "([":
            if depth == 0:
                break
            depth -= 1
        elif depth == 0 and not (c.isalnum() or c in "_.*&:"):
            break
        k -= 1
    operand = code[k + 1:end].strip()
    # unary minus directly in front of a parenthesised operand belongs to the expression
    if k >= 0 and code[k] == "-" and operand.startswith("("):
        operand = "-" + operand
    expr = re.sub(r"\s+", " ", f"{operand} as {m.group(1)}")
    line = code.count("\n", 0, j) + 1
    found.setdefault(expr, []).append(line)

# nested forms: `-((…) as i8) as u8` is found as `-((…) as i8) as u8` and its inner cast separately
unreviewed = {e: ls for e, ls in found.items() if e not in REVIEWED}
gone = [e for e in REVIEWED if e not in found]
if unreviewed:
    for e, ls in sorted(unreviewed.items()):
        print(f"cast_table: UNREVIEWED cast `{e}` at compiler.rs line(s) {ls}: add a boundary sweep family in "
              f"harness/src/bin/c05.rs (boundary_cases) and an entry here")
    sys.exit(2)
print(f"cast_table: {sum(len(v) for v in found.values())} narrowing casts in compiler.rs, {len(found)} distinct, all reviewed"
      + (f"; {len(gone)} reviewed entries no longer in the source" if gone else ""))
