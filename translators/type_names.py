#!/usr/bin/env python3
"""Regenerate lean/KotoVerif/Gen/TypeNames.lean from the Rust sources that decide type hints:

  * crates/runtime/src/vm.rs            compare_value_type(): the special hint names and the predicate
                                        each one selects (match arms before the catch-all arm)
  * crates/runtime/src/types/value.rs   type_as_string(): the built-in type name of every KValue variant
  * crates/runtime/src/types/map.rs     meta_type(): the name reported for a non-string `@type`

Fails loudly (non-zero exit) if an anchor is missing, an arm has an unknown shape, a KValue variant is
not covered, or the structure that the hand-written model `Model/Types.lean` mirrors (null short cut,
`@base` loop, guards of the Map/Function arms) is no longer found. The check driver then treats the
tie as broken.
"""
import os, re, sys

REPO = os.environ.get("KOTO_REPO", "/repo")


def die(msg):
    sys.exit(f"type_names: {msg}")


def read(rel):
    p = os.path.join(REPO, rel)
    if not os.path.exists(p):
        die(f"source file {rel} not found")
    return open(p, encoding="utf-8").read()


def fn_body(src, name, rel):
    m = re.search(r"\bfn\s+" + re.escape(name) + r"\b", src)
    if not m:
        die(f"anchor fn {name} not found in {rel}")
    i = src.index("{", m.end())
    depth, j = 0, i
    while j < len(src):
        if src[j] == "{":
            depth += 1
        elif src[j] == "}":
            depth -= 1
            if depth == 0:
                return src[i : j + 1]
        j += 1
    die(f"unbalanced braces after fn {name} in {rel}")


vm = read("crates/runtime/src/vm.rs")
value = read("crates/runtime/src/types/value.rs")
kmap = read("crates/runtime/src/types/map.rs")

# ---- compare_value_type -------------------------------------------------------------------------
cvt = fn_body(vm, "compare_value_type", "vm.rs")
if not re.search(r"if\s+allow_null\s*&&\s*matches!\(\s*value\s*,\s*KValue::Null\s*\)\s*\{\s*return\s+true;", cvt):
    die("compare_value_type: the `allow_null && value is Null => true` short cut was not found")
m = re.search(r"match\s+self\.get_constant_str\(type_index\)\s*\{", cvt)
if not m:
    die("compare_value_type: `match self.get_constant_str(type_index)` not found")
arms_src = cvt[m.end():]
PRED = {
    "true": "always",
    "value.is_callable()": "callable",
    "value.is_indexable()": "indexable",
    "value.is_iterable()": "iterable",
    # every map is accepted by `Iterable` (a for loop iterates its entries), requests/C16-fix-5.diff
    "value.is_iterable() || matches!(value, KValue::Map(_))": "iterable",
    # a generator function is a function that can be called, requests/C16-fix-6.diff
    "value.is_callable() || value.is_generator()": "callable",
}
specials = []
iterable_hint_accepts_maps = False
callable_hint_accepts_generators = False
arms_src = re.sub(r"^\s*//[^\n]*\n", "", arms_src, flags=re.M)
pos = 0
while True:
    am = re.match(r'\s*"([^"]+)"\s*=>\s*([^\n{]+?),\s*\n', arms_src[pos:])
    if not am:
        break
    name, rhs = am.group(1), am.group(2).strip()
    if "KValue::Map(_)" in rhs:
        iterable_hint_accepts_maps = True
    if "is_generator()" in rhs:
        callable_hint_accepts_generators = True
    if rhs not in PRED:
        die(f"compare_value_type: special name {name!r} selects an unknown predicate {rhs!r}")
    specials.append((name, PRED[rhs]))
    pos += am.end()
rest = arms_src[pos:]
if not re.match(r"\s*expected_type\s*=>\s*\{", rest):
    die("compare_value_type: catch-all arm `expected_type => {` does not directly follow the special names")
if len(specials) != 4 or sorted(p for _, p in specials) != ["always", "callable", "indexable", "iterable"]:
    die(f"compare_value_type: expected 4 special names (always/callable/indexable/iterable), found {specials}")
# shape of the catch-all arm that Model/Types.lean mirrors
need = [
    r"if\s+value\.type_as_string\(\)\s*==\s*expected_type\s*\{\s*true",
    r"KValue::Map\(m\)\s+if\s+m\.contains_meta_key\(&MetaKey::Base\)",
    r"let\s+base\s*=\s*m\.get_meta_value\(&MetaKey::Base\)\.unwrap\(\);",
    r"if\s+base\.type_as_string\(\)\s*==\s*expected_type\s*\{\s*return\s+true;",
    r"value\s*=\s*base;",
    r"_\s*=>\s*break",
]
for pat in need:
    if not re.search(pat, rest):
        die(f"compare_value_type: expected structure not found: {pat}")

# ---- type_as_string -----------------------------------------------------------------------------
tas = fn_body(value, "type_as_string", "value.rs")
m = re.search(r"match\s+&?self\s*\{", tas)
if not m:
    die("type_as_string: `match &self` not found")
body = re.sub(r"^\s*//[^\n]*\n", "", tas[m.end():], flags=re.M)
# arms: `Pat [| Pat]* [if guard] => lazy!(KString; "Name"),` or the two special arms (Map with meta, Object)
arm_re = re.compile(r"\s*([A-Za-z_][\w]*(?:\s*(?:\([^)]*\)|\{[^}]*\}))?(?:\s*\|\s*[A-Za-z_][\w]*(?:\s*(?:\([^)]*\)|\{[^}]*\}))?)*)"
                    r"(?:\s+if\s+([^=]+?))?\s*=>\s*")
kinds = {}          # variant (+guard tag) -> name
pos = 0
seen_meta_arm = seen_object_arm = False
object_default = None
while True:
    am = arm_re.match(body[pos:])
    if not am:
        break
    pats = [re.match(r"[A-Za-z_]\w*", p.strip()).group(0) for p in am.group(1).split("|")]
    guard = (am.group(2) or "").strip()
    after = body[pos + am.end():]
    lm = re.match(r'lazy!\(KString;\s*"([^"]+)"\)\s*,', after)
    if lm:
        for p in pats:
            key = p
            if guard:
                if p == "Function" and re.fullmatch(r"f\.flags\.is_generator\(\)", guard):
                    key = "Function/generator"
                else:
                    die(f"type_as_string: unknown guard {guard!r} on arm {p}")
            if key in kinds:
                die(f"type_as_string: duplicate arm for {key}")
            kinds[key] = lm.group(1)
        pos += am.end() + lm.end()
        continue
    if pats == ["Map"] and re.fullmatch(r"m\.meta_map\(\)\.is_some\(\)", guard):
        bm = re.match(r'\{\s*m\.meta_type\(\)\.unwrap_or_else\(\|\|\s*lazy!\(KString;\s*"([^"]+)"\)\)\s*\}', after)
        if not bm:
            die("type_as_string: Map-with-metamap arm has an unexpected body")
        if "Map" in kinds:
            die("type_as_string: the Map-with-metamap arm must precede the plain Map arm")
        object_default = bm.group(1)
        seen_meta_arm = True
        pos += am.end() + bm.end()
        continue
    if pats == ["Object"] and not guard:
        bm = re.match(r"o\.try_borrow\(\)\.map_or_else\(\s*\|_\|\s*\"[^\"]*\"\.into\(\),\s*\|o\|\s*o\.type_string\(\),\s*\),", after)
        if not bm:
            die("type_as_string: Object arm has an unexpected body")
        seen_object_arm = True
        pos += am.end() + bm.end()
        continue
    die(f"type_as_string: arm {am.group(1)!r} has an unexpected body: {after[:60]!r}")
if not re.match(r"\s*\}", body[pos:]):
    die(f"type_as_string: could not read the arm starting at {body[pos:pos+60]!r}")
if not (seen_meta_arm and seen_object_arm):
    die("type_as_string: Map-with-metamap or Object arm not found")
if "Function/generator" in kinds and list(kinds).index("Function/generator") > list(kinds).index("Function"):
    die("type_as_string: the generator arm must precede the plain Function arm")

# every KValue variant must be covered
enum_m = re.search(r"pub enum KValue\s*\{(.*?)\n\}", value, re.S)
if not enum_m:
    die("enum KValue not found")
variants = re.findall(r"^\s{4}([A-Z]\w*)\s*(?:\(|\{|,)", enum_m.group(1), re.M)
EXPECTED = ["Null", "Bool", "Number", "Range", "List", "Tuple", "Map", "Str", "Function", "NativeFunction",
            "Iterator", "Object", "TemporaryTuple"]
if sorted(variants) != sorted(EXPECTED):
    die(f"KValue variants changed: {variants}")
for v in EXPECTED:
    if v == "Object":
        continue
    if v not in kinds:
        die(f"type_as_string: no arm for KValue::{v}")

# ---- is_callable / is_indexable / is_iterable ------------------------------------------------------
VARIANT_KIND = {"Null": "null", "Bool": "bool", "Number": "number", "List": "list", "Range": "range", "Map": "map",
                "Str": "str", "Tuple": "tuple", "Iterator": "iterator", "TemporaryTuple": "temporaryTuple"}


def true_arm(body, fname):
    """variants of the arm `A(_) | B(_) | ... => true,` (pattern may also be `A { .. }`)"""
    m = re.search(r"((?:[A-Z]\w*\s*(?:\([^)]*\)|\{[^}]*\})?\s*\|?\s*)+)=>\s*true\s*,", body)
    if not m:
        die(f"{fname}: arm `... => true` not found")
    vs = re.findall(r"([A-Z]\w*)\s*(?:\([^)]*\)|\{[^}]*\})?", m.group(1))
    for v in vs:
        if v not in VARIANT_KIND:
            die(f"{fname}: variant {v} in the `=> true` arm is not understood")
    return vs


idx = fn_body(value, "is_indexable", "value.rs")
idx_true = true_arm(idx, "is_indexable")
if not re.search(r"Object\(o\)\s*=>\s*o\.try_borrow\(\)\.is_ok_and\(\|o\|\s*o\.size\(\)\.is_some\(\)\)", idx):
    die("is_indexable: Object arm has an unexpected shape")
if not re.search(r"_\s*=>\s*false", idx):
    die("is_indexable: `_ => false` not found")
if "Map" not in idx_true:
    die("is_indexable: Map is expected in the `=> true` arm (maps with a metamap are indexable too)")

itb = fn_body(value, "is_iterable", "value.rs")
itb_true = true_arm(itb, "is_iterable")
if not re.search(r"_\s*=>\s*false", itb):
    die("is_iterable: `_ => false` not found")
if not re.search(r"Object\(o\)\s*=>\s*o\s*\.try_borrow\(\)\s*\.is_ok_and\(\|o\|\s*!matches!\(o\.is_iterable\(\),\s*IsIterable::NotIterable\)\)", itb):
    die("is_iterable: Object arm has an unexpected shape")
# maps: either every map iterates (Map in the `=> true` arm), or a map with a metamap needs @iterator/@next
map_cond = re.search(
    r"Map\(m\)\s*=>\s*\{\s*if\s+m\.meta_map\(\)\.is_some\(\)\s*\{\s*m\.contains_meta_key\(&UnaryOp::Iterator\.into\(\)\)\s*\|\|\s*m\.contains_meta_key\(&UnaryOp::Next\.into\(\)\)\s*\}\s*else\s*\{\s*true\s*\}\s*\}", itb)
if ("Map" in itb_true) == bool(map_cond):
    die("is_iterable: the Map case is neither `Map(..) => true` nor the metamap-needs-@iterator/@next form")
obj_iter_needs_keys = bool(map_cond)

cal = fn_body(value, "is_callable", "value.rs")
need = [
    r"Function\(f\)\s+if\s+f\.flags\.is_generator\(\)\s*=>\s*false",
    r"Function\(_\)\s*\|\s*NativeFunction\(_\)\s*=>\s*true",
    r"Map\(m\)\s*=>\s*m\.contains_meta_key\(&MetaKey::Call\)",
    r"Object\(o\)\s*=>\s*o\.try_borrow\(\)\.is_ok_and\(\|o\|\s*o\.is_callable\(\)\)",
    r"_\s*=>\s*false",
]
for pat in need:
    if not re.search(pat, cal):
        die(f"is_callable: expected structure not found: {pat}")

# ---- meta_type ----------------------------------------------------------------------------------
mt = fn_body(kmap, "meta_type", "map.rs")
# two accepted shapes: the recursive one, and the iterative one with cycle detection proposed in
# requests/C16-fix-1.diff (same function on acyclic chains, which is all Model/Types.lean contains)
need = [
    r"match\s+(?:self|map)\.get_meta_value\(&MetaKey::Type\)",
    r"Some\(Str\(s\)\)\s*=>\s*(?:return\s+)?Some\(s\)",
]
for pat in need:
    if not re.search(pat, mt):
        die(f"meta_type: expected structure not found: {pat}")
recursive = re.search(
    r"None\s*=>\s*match\s+self\.get_meta_value\(&MetaKey::Base\)\s*\{\s*Some\(Map\(base\)\)\s*=>\s*base\.meta_type\(\),\s*_\s*=>\s*None,", mt)
iterative = (re.search(r"None\s*=>\s*match\s+map\.get_meta_value\(&MetaKey::Base\)\s*\{\s*Some\(Map\(base\)\)\s*=>\s*\{", mt)
             and re.search(r"map\s*=\s*base;", mt) and re.search(r"_\s*=>\s*return\s+None,", mt))
if not (recursive or iterative):
    die("meta_type: the walk along @base maps has an unexpected structure")
bm = re.search(r'Some\(_\)\s*=>\s*(?:return\s+)?Some\("([^"]+)"\.into\(\)\)', mt)
if not bm:
    die("meta_type: arm for a non-string @type not found")
bad_meta = bm.group(1)

# ---- emit ---------------------------------------------------------------------------------------
KIND_OF = [  # (Lean constructor, key in `kinds`)
    ("null", "Null"), ("bool", "Bool"), ("number", "Number"), ("list", "List"), ("range", "Range"),
    ("map", "Map"), ("str", "Str"), ("tuple", "Tuple"), ("generator", "Function/generator"),
    ("function", "Function"), ("native", "NativeFunction"), ("iterator", "Iterator"),
    ("temporaryTuple", "TemporaryTuple"),
]
if "Function/generator" not in kinds:
    die("type_as_string: generator arm not found")


def cps(s):
    return "[" + ", ".join(str(ord(c)) for c in s) + "]"


out = []
out.append("-- GENERATED by translators/type_names.py from crates/runtime/src/{vm.rs,types/value.rs,types/map.rs} — do not edit")
out.append("namespace KotoVerif.Gen.TypeNames")
out.append("")
out.append("/-- Predicate selected by a special hint name in `compare_value_type`. -/")
out.append("inductive Special where")
out.append("  | always | callable | indexable | iterable")
out.append("  deriving DecidableEq, Repr, Inhabited")
out.append("")
out.append("/-- `compare_value_type`: the string arms before the catch-all arm, in source order")
out.append("(code points of the name, predicate). -/")
out.append("def specialTable : List (List Nat × Special) := [")
out.append(",\n".join(f"  ({cps(n)}, .{p})  -- {n}" if False else f"  ({cps(n)}, .{p})" for n, p in specials))
out.append("]")
out.append("")
for n, p in specials:
    out.append(f"/-- \"{n}\" -/")
    out.append(f"def name_{p} : List Nat := {cps(n)}")
out.append("")
out.append("/-- Cases of `KValue::type_as_string` that yield a fixed name. -/")
out.append("inductive Kind where")
for c, _ in KIND_OF:
    out.append(f"  | {c}")
out.append("  deriving DecidableEq, Repr, Inhabited")
out.append("")
out.append("def kindName : Kind → List Nat")
for c, k in KIND_OF:
    out.append(f"  | .{c} => {cps(kinds[k])}  -- {kinds[k]}")
out.append("")
out.append(f"/-- name of a map with a metamap but without `@type` anywhere on its `@base` chain: \"{object_default}\" -/")
out.append(f"def objectName : List Nat := {cps(object_default)}")
out.append("")
out.append(f"/-- `KMap::meta_type` for a non-string `@type`: \"{bad_meta}\" -/")
out.append(f"def badMetaTypeName : List Nat := {cps(bad_meta)}")
out.append("")
out.append("/-- `KValue::is_indexable`: variants of the `=> true` arm (a map counts with or without a metamap) -/")
out.append("def indexableKind : Kind → Bool")
for c in sorted(set(VARIANT_KIND[v] for v in idx_true)):
    out.append(f"  | .{c} => true")
out.append("  | _ => false")
out.append("")
out.append("/-- `KValue::is_iterable`: variants of the `=> true` arm; a map without a metamap always iterates -/")
out.append("def iterableKind : Kind → Bool")
for c in sorted(set(VARIANT_KIND[v] for v in itb_true) | {"map"}):
    out.append(f"  | .{c} => true")
out.append("  | _ => false")
out.append("")
out.append("/-- does the hint `Callable` accept generator functions, which `is_callable` excludes? -/")
out.append(f"def callableHintAcceptsGenerators : Bool := {'true' if callable_hint_accepts_generators else 'false'}")
out.append("")
out.append("/-- does the hint `Iterable` accept every map, whatever `is_iterable` says? -/")
out.append(f"def iterableHintAcceptsMaps : Bool := {'true' if iterable_hint_accepts_maps else 'false'}")
out.append("")
out.append("/-- `is_iterable` for a map *with* a metamap: does it need `@iterator` or `@next`? -/")
out.append(f"def objIterableNeedsKeys : Bool := {'true' if obj_iter_needs_keys else 'false'}")
out.append("")
out.append("end KotoVerif.Gen.TypeNames")
text = "\n".join(out) + "\n"

dst = os.path.join(os.path.dirname(os.path.abspath(__file__)), "..", "lean", "KotoVerif", "Gen", "TypeNames.lean")
old = open(dst, encoding="utf-8").read() if os.path.exists(dst) else None
if old != text:
    open(dst, "w", encoding="utf-8").write(text)
print(f"type_names: {len(specials)} special names, {len(kinds)} built-in type names, object default {object_default!r}")
